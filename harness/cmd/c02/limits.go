package main

import (
	"fmt"
	"math/rand"
	"strings"

	tls "github.com/refraction-networking/utls"
	"verif/harness/vh"
)

// limitCases: every length-prefixed vector of every built-in extension type at the exact limits of its
// prefix, derived from the wire limits of Model/ExtSpec.v (fields_ok / wf_ext) rather than hand-picked:
//
//	one-byte prefix (byte budget 255): element counts giving 254 and 255 bytes (at the limit: MUST encode
//	  to a valid hello) and 256 and 257 bytes (one over: MUST be an error - from BuildHandshakeState, or from
//	  Handshake before anything is written);
//	two-byte prefix: the binding limit is the extension block (extension_data and the block share the same
//	  uint16 budget), so the vector is sized to make the block exactly 65535 bytes (must encode) and 65536
//	  (must be an error), plus the vector alone at 65535 / 65536 bytes (error).
//
// The small cases also go to the model (CBuild); the 64 KiB ones only through the Go-side oracles.
type u8vec struct {
	name string
	elem int                          // bytes per element
	fix  int                          // bytes inside the same prefix that are not elements
	rfc  bool                         // the at-limit value is inside the RFC grammar (=> wf)
	mk   func(n int) tls.TLSExtension // n elements
}

func rep(n int, b byte) []byte { return []byte(strings.Repeat(string([]byte{b}), n)) }

func u16n(n int, base uint16) []uint16 {
	out := make([]uint16, n)
	for i := range out {
		out[i] = base + uint16(i)
	}
	return out
}

func u8vectors() []u8vec {
	return []u8vec{
		{"versions", 2, 0, true, func(n int) tls.TLSExtension { return &tls.SupportedVersionsExtension{Versions: u16n(n, 0x0300)} }},
		{"compress-cert-algs", 2, 0, true, func(n int) tls.TLSExtension {
			e := &tls.UtlsCompressCertExtension{}
			for _, v := range u16n(n, 1) {
				e.Algorithms = append(e.Algorithms, tls.CertCompressionAlgo(v))
			}
			return e
		}},
		{"psk-modes", 1, 0, true, func(n int) tls.TLSExtension { return &tls.PSKKeyExchangeModesExtension{Modes: rep(n, 1)} }},
		{"points", 1, 0, true, func(n int) tls.TLSExtension { return &tls.SupportedPointsExtension{SupportedPoints: rep(n, 0)} }},
		{"alpn-name", 1, 0, true, func(n int) tls.TLSExtension {
			return &tls.ALPNExtension{AlpnProtocols: []string{"h2", string(rep(n, 'p'))}}
		}},
		{"alps-name", 1, 0, true, func(n int) tls.TLSExtension {
			return &tls.ApplicationSettingsExtension{SupportedProtocols: []string{string(rep(n, 'q'))}}
		}},
		{"alps-new-name", 1, 0, true, func(n int) tls.TLSExtension {
			return &tls.ApplicationSettingsExtensionNew{SupportedProtocols: []string{string(rep(n, 'r')), "h2"}}
		}},
		{"renegotiated-connection", 1, 0, true, func(n int) tls.TLSExtension {
			return &tls.RenegotiationInfoExtension{Renegotiation: tls.RenegotiateOnceAsClient, RenegotiatedConnection: rep(n, 7)}
		}},
		{"token-binding-params", 1, 0, true, func(n int) tls.TLSExtension {
			return &tls.FakeTokenBindingExtension{MajorVersion: 1, MinorVersion: 0, KeyParameters: rep(n, 2)}
		}},
		{"psk-binder", 1, 0, false, func(n int) tls.TLSExtension { // only hash-sized binders are accepted at all
			return &tls.FakePreSharedKeyExtension{OmitEmptyPsk: true, Identities: []tls.PskIdentity{{Label: []byte("id"), ObfuscatedTicketAge: 9}}, Binders: [][]byte{rep(n, 3)}}
		}},
	}
}

// two-byte-prefixed vectors: mk(n) builds the extension with an n-byte vector (n a multiple of elem);
// over = bytes of the whole extension beyond the vector
type u16vec struct {
	name string
	elem int
	over int
	mk   func(nbytes int) tls.TLSExtension
}

func u16vectors() []u16vec {
	sig := func(n int) []tls.SignatureScheme {
		out := make([]tls.SignatureScheme, n)
		for i := range out {
			out[i] = tls.SignatureScheme(0x0401 + i%7)
		}
		return out
	}
	return []u16vec{
		{"sni-host", 1, 9, func(n int) tls.TLSExtension { return &tls.SNIExtension{ServerName: string(rep(n, 'h'))} }},
		{"groups", 2, 6, func(n int) tls.TLSExtension {
			e := &tls.SupportedCurvesExtension{}
			for _, v := range u16n(n/2, 0x0100) {
				e.Curves = append(e.Curves, tls.CurveID(v))
			}
			return e
		}},
		{"sigalgs", 2, 6, func(n int) tls.TLSExtension {
			return &tls.SignatureAlgorithmsExtension{SupportedSignatureAlgorithms: sig(n / 2)}
		}},
		{"sigalgs-cert", 2, 6, func(n int) tls.TLSExtension {
			return &tls.SignatureAlgorithmsCertExtension{SupportedSignatureAlgorithms: sig(n / 2)}
		}},
		{"delegated-credentials", 2, 6, func(n int) tls.TLSExtension {
			return &tls.FakeDelegatedCredentialsExtension{SupportedSignatureAlgorithms: sig(n / 2)}
		}},
		{"alpn-list", 1, 6, func(n int) tls.TLSExtension { // n bytes of names of 255 bytes (256 with their prefix) and a shorter last one
			var ps []string
			for k := 0; k < n/256; k++ {
				ps = append(ps, string(rep(255, 'a')))
			}
			if r := n % 256; r > 1 {
				ps = append(ps, string(rep(r-1, 'b')))
			} else if r == 1 && len(ps) > 0 { // a lone prefix byte would be an empty name: shorten the previous name instead
				ps[len(ps)-1] = string(rep(253, 'a'))
				ps = append(ps, "bb")
			}
			return &tls.ALPNExtension{AlpnProtocols: ps}
		}},
		{"key-share-data", 1, 10, func(n int) tls.TLSExtension {
			return &tls.KeyShareExtension{KeyShares: []tls.KeyShare{{Group: tls.CurveID(0x4001), Data: rep(n, 5)}}}
		}},
		{"cookie", 1, 6, func(n int) tls.TLSExtension { return &tls.CookieExtension{Cookie: rep(n, 6)} }},
		{"session-ticket", 1, 4, func(n int) tls.TLSExtension { return &tls.SessionTicketExtension{Ticket: rep(n, 8)} }},
		{"grease-body", 1, 4, func(n int) tls.TLSExtension { return &tls.UtlsGREASEExtension{Body: rep(n, 9)} }},
		{"psk-identity", 1, 4 + 2 + 2 + 4 + 2 + 33, func(n int) tls.TLSExtension {
			return &tls.FakePreSharedKeyExtension{OmitEmptyPsk: true, Identities: []tls.PskIdentity{{Label: rep(n, 4), ObfuscatedTicketAge: 1}}, Binders: [][]byte{rep(32, 1)}}
		}},
		{"padding", 1, 4, func(n int) tls.TLSExtension { return &tls.UtlsPaddingExtension{WillPad: true, PaddingLen: n} }},
	}
}

// prefilledConfig: every Config field that ApplyConfig / writeToUConn copies FROM the spec's extensions
// (ServerName <- SNI, NextProtos <- ALPN / NPN, CurvePreferences <- supported_groups, Renegotiation <-
// renegotiation_info) already holds a well-formed, non-empty value of the caller's: the spec and the Config
// disagree, and whatever validation the library runs must look at what is actually marshalled.
func prefilledConfig(seed int64) *tls.Config {
	return &tls.Config{ServerName: "config.example", NextProtos: []string{"h2", "http/1.1"},
		CurvePreferences: []tls.CurveID{tls.X25519, tls.CurveP256}, Renegotiation: tls.RenegotiateOnceAsClient,
		MinVersion: tls.VersionTLS12, MaxVersion: tls.VersionTLS13, ClientSessionCache: tls.NewLRUClientSessionCache(2),
		InsecureSkipVerify: true, OmitEmptyPsk: true, Rand: seedReader{rand.New(rand.NewSource(seed))}}
}

// limitCases builds the table once per Config variant (fresh extension objects each time: ApplyPreset
// writes into them): "" = a Config that leaves those fields empty, "prefilled" = prefilledConfig.
func limitCases(c *vh.Ctx) []custom {
	out := limitCasesFor(c, "")
	for _, cu := range limitCasesFor(c, "prefilled") {
		cu.noCoq = true // same bytes as far as the model is concerned: Go-side oracles only
		out = append(out, cu)
	}
	return out
}

func limitCasesFor(c *vh.Ctx, variant string) []custom {
	var out []custom
	add := func(key, desc string, exts []tls.TLSExtension) *custom {
		cu := custom{key: "limits/" + key, desc: desc,
			cfg: &tls.Config{ServerName: "", InsecureSkipVerify: true, OmitEmptyPsk: true, Rand: seedReader{rand.New(rand.NewSource(c.Seed))}}}
		if variant != "" {
			cu.key += "/cfg-" + variant
			cu.desc += "; Config with its own well-formed ServerName / NextProtos / CurvePreferences / Renegotiation"
			cu.cfg = prefilledConfig(c.Seed)
		}
		cu.spec = &tls.ClientHelloSpec{TLSVersMin: tls.VersionTLS12, TLSVersMax: tls.VersionTLS13,
			CipherSuites: []uint16{tls.TLS_AES_128_GCM_SHA256, tls.TLS_ECDHE_RSA_WITH_AES_128_GCM_SHA256}, CompressionMethods: []byte{0}, Extensions: exts}
		out = append(out, cu)
		return &out[len(out)-1]
	}
	// ---- one-byte prefixes: 254, 255 | 256, 257 bytes ----
	for _, v := range u8vectors() {
		seen := map[int]bool{}
		for _, bytes := range []int{254, 255, 256, 257} {
			n := (bytes - v.fix) / v.elem
			if bytes > 255 { // smallest count whose encoding is at least that many bytes
				n = (bytes - v.fix + v.elem - 1) / v.elem
			}
			if seen[n] {
				continue
			}
			seen[n] = true
			enc := n*v.elem + v.fix
			cu := add(fmt.Sprintf("%s-%d", v.name, n), fmt.Sprintf("%s: %d elements = %d bytes behind a one-byte length prefix", v.name, n, enc),
				[]tls.TLSExtension{&tls.ExtendedMasterSecretExtension{}, v.mk(n)})
			if enc <= 255 {
				cu.wf, cu.oracle = v.rfc, v.rfc
			} else {
				cu.mustErr, cu.cause = fmt.Sprintf("%s of %d bytes does not fit a one-byte length", v.name, enc), "over-limit"
			}
		}
		// the count the old guard confused with bytes: 255 ELEMENTS of a multi-byte type
		if v.elem > 1 && !seen[255] {
			cu := add(fmt.Sprintf("%s-255", v.name), fmt.Sprintf("%s: 255 elements = %d bytes", v.name, 255*v.elem), []tls.TLSExtension{&tls.ExtendedMasterSecretExtension{}, v.mk(255)})
			cu.mustErr, cu.cause = fmt.Sprintf("%s of %d bytes does not fit a one-byte length", v.name, 255*v.elem), "over-limit"
		}
	}
	// ---- two-byte prefixes: extension block exactly 65535 / 65536 bytes; the vector alone at 65535 / 65536 ----
	vecs := u16vectors()
	for i, v := range vecs {
		if c.Tier == "quick" && i%3 != int(c.Seed%3) && v.name != "groups" && v.name != "alpn-list" {
			continue // quick: a rotating third of them (each is a 64 KiB hello), groups and the ALPN list always
		}
		for _, block := range []int{65535, 65536} {
			n := block - 4 - v.over // 4: the extended_master_secret in front
			n -= n % v.elem
			ems := []tls.TLSExtension{&tls.ExtendedMasterSecretExtension{}}
			exts := append(ems, v.mk(n))
			if pad := block - 4 - v.over - n; pad > 0 { // element size does not divide: make up with an unknown extension
				if pad < 4 {
					n -= v.elem * ((4 - pad + v.elem - 1) / v.elem)
					exts = append(ems, v.mk(n))
					pad = block - 4 - v.over - n
				}
				exts = append(exts, &tls.GenericExtension{Id: 0x7e7e, Data: rep(pad-4, 0)})
			}
			cu := add(fmt.Sprintf("%s-block-%d", v.name, block), fmt.Sprintf("%s: %d-byte vector, extension block of exactly %d bytes", v.name, n, block), exts)
			cu.noCoq = true
			if block <= 65535 {
				cu.wf, cu.oracle = true, true
			} else {
				cu.mustErr, cu.cause = fmt.Sprintf("extension block of %d bytes", block), "over-limit"
			}
		}
		for _, nb := range []int{65535, 65536} {
			n := nb - nb%v.elem
			cu := add(fmt.Sprintf("%s-vector-%d", v.name, n), fmt.Sprintf("%s: vector of %d bytes behind a two-byte length prefix", v.name, n), []tls.TLSExtension{v.mk(n)})
			cu.noCoq = true
			cu.mustErr, cu.cause = fmt.Sprintf("%s vector of %d bytes: the extension does not fit", v.name, n), "over-limit"
		}
	}
	// ---- byte carries of NESTED length prefixes ----
	// An n-byte field sits inside several prefixes (n, n+k1, n+k2, ... up to the extension header, `over` bytes of
	// framing in all); each is written as byte(x>>8), byte(x).  Sweep n through every value at which one of them
	// crosses a multiple of 256 (windows at 256 and 512: [W-over-2, W+1]), so that every prefix is seen on both
	// sides of its own carry while its neighbours are not.  All of these are inside the limits: they must encode.
	for _, v := range vecs {
		for _, w := range []int{256, 512} {
			k := 0
			for n := w - v.over - 2; n <= w+1; n++ {
				if n < 1 || n%v.elem != 0 {
					continue
				}
				k++
				cu := add(fmt.Sprintf("carry-%s-%d", v.name, n), fmt.Sprintf("%s: %d-byte vector, nested length prefixes around %d", v.name, n, w),
					[]tls.TLSExtension{&tls.ExtendedMasterSecretExtension{}, &tls.SCTExtension{}, v.mk(n)})
				cu.wf, cu.oracle = true, true
				cu.noCoq = k%6 != 0 || w != 256 // every sixth of the first window also to the model (the extension terms are long literals)
			}
		}
	}
	return out
}

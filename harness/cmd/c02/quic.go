package main

import (
	"context"
	"fmt"
	"math/rand"
	"time"

	tls "github.com/refraction-networking/utls"
	"verif/harness/vh"
)

// runQUIC: the ClientHello a UQUICConn emits (first QUICWriteData event at the initial level) for
// TLS 1.3 custom specs carrying a quic_transport_parameters extension: empty session id, QUIC flag set.
func runQUIC(c *vh.Ctx) {
	n := 3
	if c.Tier != "quick" {
		n = 12
	}
	for i := 0; i < n; i++ {
		r := rand.New(rand.NewSource(c.Seed*31 + int64(i)))
		tps := tls.TransportParameters{tls.InitialMaxData(1 << uint(10+r.Intn(20))), tls.MaxIdleTimeout(uint64(r.Intn(60000))),
			tls.InitialSourceConnectionID(rb(r, r.Intn(9)))}
		if i%2 == 0 {
			tps = append(tps, &tls.GREASEQUICBit{}, tls.ActiveConnectionIDLimit(uint64(2+r.Intn(6))))
		}
		spec := &tls.ClientHelloSpec{TLSVersMin: tls.VersionTLS13, TLSVersMax: tls.VersionTLS13,
			CipherSuites:       []uint16{tls.TLS_AES_128_GCM_SHA256, tls.TLS_AES_256_GCM_SHA384, tls.TLS_CHACHA20_POLY1305_SHA256},
			CompressionMethods: []uint8{0},
			Extensions: []tls.TLSExtension{
				&tls.SNIExtension{},
				&tls.SupportedCurvesExtension{Curves: []tls.CurveID{tls.X25519, tls.CurveP256}},
				&tls.ALPNExtension{AlpnProtocols: []string{"h3"}},
				&tls.SignatureAlgorithmsExtension{SupportedSignatureAlgorithms: []tls.SignatureScheme{tls.ECDSAWithP256AndSHA256, tls.PSSWithSHA256}},
				&tls.KeyShareExtension{KeyShares: []tls.KeyShare{{Group: tls.X25519}}},
				&tls.PSKKeyExchangeModesExtension{Modes: []uint8{tls.PskModeDHE}},
				&tls.SupportedVersionsExtension{Versions: []uint16{tls.VersionTLS13}},
				&tls.QUICTransportParametersExtension{TransportParameters: tps},
			}}
		sni := []string{"quic.example", "", "192.0.2.9"}[i%3]
		cfg := &tls.Config{ServerName: sni, InsecureSkipVerify: true, MinVersion: tls.VersionTLS13, NextProtos: []string{"h3"},
			Rand: seedReader{rand.New(rand.NewSource(c.Seed + int64(i)))}}
		key := fmt.Sprintf("quic/%d", i)
		desc := fmt.Sprintf("UQUICClient, custom TLS 1.3 spec with %d transport parameters, ServerName %q", len(tps), sni)
		done := make(chan []byte, 1)
		go func() {
			var hello []byte
			p, val := vh.Recover(func() {
				q := tls.UQUICClient(&tls.QUICConfig{TLSConfig: cfg}, tls.HelloCustom)
				if err := q.ApplyPreset(spec); err != nil {
					return
				}
				ctx, cancel := context.WithCancel(context.Background())
				defer cancel()
				if err := q.Start(ctx); err != nil {
					return
				}
				for k := 0; k < 8; k++ {
					e := q.NextEvent()
					if e.Kind == tls.QUICNoEvent {
						break
					}
					if e.Kind == tls.QUICWriteData && e.Level == tls.QUICEncryptionLevelInitial {
						hello = append([]byte{}, e.Data...)
						break
					}
				}
				cancel()
				q.Close()
			})
			if p {
				c.Fail("panic/"+panicSite(val)+"/"+key, "UQUICConn panicked while producing its ClientHello", obsInput{Key: key, Desc: desc}, fmt.Sprint(val), "ClientHello or error")
			}
			done <- hello
		}()
		select {
		case hello := <-done:
			if hello == nil {
				c.Count("build-error/quic")
				continue
			}
			if ch, ok := observe(c, "quic", key, desc, hello, true); ok && len(ch.Sid) != 0 {
				c.Count("quic-nonempty-session-id")
			}
		case <-time.After(10 * time.Second):
			c.Count("quic-timeout")
		}
	}
}

// c02: runner and Go-side oracle for property C02 ("Every ClientHello utls emits is
// syntactically valid TLS").
//
// Real UConns (tls.UClient over a dummy net.Conn; BuildHandshakeState only, no network) are
// built for every parrot x Config shapes, randomized fingerprints, generated custom specs
// (each extension type at most once, field values within RFC limits, incl. boundary sizes),
// specs outside those limits, a fixed corpus of specs that CANNOT be encoded (total sizes
// beyond the length fields: the F-02b family), specs fingerprinted from the library's own
// output and JSON-imported specs.
//
//   - every Hello.Raw produced is handed to the Coq oracle valid_chb (Model/Strict.v) as an
//     OracleCase, and walked by the independent Go oracle of strict.go (c.Fail);
//   - for custom specs the header fields and every extension OBJECT (rendered by
//     harness/extcoq as a term of Model/Ext.v) go to the model of MarshalClientHelloNoECH
//     (Model/ChMarshal.v), which must reproduce Hello.Raw byte for byte or fail when the code fails.
package main

import (
	"encoding/binary"
	"fmt"
	"io"
	"math/rand"
	"net"
	"os"
	"path/filepath"
	"sort"
	"strings"
	"time"

	tls "github.com/refraction-networking/utls"
	"verif/harness/extcoq"
	"verif/harness/hs"
	"verif/harness/vh"
)

func main() { vh.Main(map[string]vh.Suite{"C02": {Corr: "Corr.C02Corr", Run: run}}) }

// ---- dummy transport: BuildHandshakeState does no I/O ----
type nullConn struct{}

func (nullConn) Read(b []byte) (int, error)         { return 0, io.EOF }
func (nullConn) Write(b []byte) (int, error)        { return len(b), nil }
func (nullConn) Close() error                       { return nil }
func (nullConn) LocalAddr() net.Addr                { return &net.TCPAddr{} }
func (nullConn) RemoteAddr() net.Addr               { return &net.TCPAddr{} }
func (nullConn) SetDeadline(t time.Time) error      { return nil }
func (nullConn) SetReadDeadline(t time.Time) error  { return nil }
func (nullConn) SetWriteDeadline(t time.Time) error { return nil }

// sinkConn: like nullConn, but remembers whether anything was written (a ClientHello that left the client)
type sinkConn struct {
	nullConn
	written int
}

func (s *sinkConn) Write(b []byte) (int, error) { s.written += len(b); return len(b), nil }

type seedReader struct{ r *rand.Rand }

func (s seedReader) Read(b []byte) (int, error) { return s.r.Read(b) }

// words: a byte string as "len [w1;w2;...]%uint63", 7 bytes per primitive integer, big-endian
// (decoded by pk in Corr/C02Corr.v)
func words(b []byte) string {
	var sb strings.Builder
	fmt.Fprintf(&sb, "%d [", len(b))
	for i := 0; i < len(b); i += 7 {
		j := i + 7
		if j > len(b) {
			j = len(b)
		}
		var w uint64
		for _, x := range b[i:j] {
			w = w<<8 | uint64(x)
		}
		if i > 0 {
			sb.WriteByte(';')
		}
		fmt.Fprintf(&sb, "%d", w)
	}
	sb.WriteString("]%uint63")
	return sb.String()
}

// ---- observing one produced hello ----

type obsInput struct {
	Key  string `json:"key"`
	Desc string `json:"desc"`
	Raw  string `json:"raw_hex,omitempty"`
}

func clip(b []byte) string {
	if len(b) > 1500 {
		return vh.Hex(b[:1500]) + fmt.Sprintf("...(%d bytes)", len(b))
	}
	return vh.Hex(b)
}

// observe applies both oracles to a hello the implementation produced without an error.
// coqToo=false: only the Go oracle (used when the bytes already travel to Coq inside a CBuild case).
func observe(c *vh.Ctx, kind, key, desc string, raw []byte, coqToo bool) (*wireCH, bool) {
	c.Count("hello/" + kind)
	ch, what := strictWalk(raw)
	if what != "" {
		c.Fail("malformed/"+what+"/"+key, "BuildHandshakeState returned nil but Hello.Raw is not a valid ClientHello: "+what,
			obsInput{key, desc, clip(raw)}, what, "valid TLS ClientHello")
	}
	if coqToo {
		c.OracleCase("valid/"+kind, "(CValid "+words(raw)+")", "strict/"+key,
			"the strict ClientHello grammar (Model/Strict.v valid_chb) rejects the Hello.Raw the implementation produced",
			obsInput{key, desc, clip(raw)}, len(raw) > 60)
	}
	return ch, what == ""
}

func panicSite(v any) string {
	s := fmt.Sprint(v)
	s = strings.Map(func(r rune) rune {
		if r >= '0' && r <= '9' {
			return -1
		}
		if r == ' ' || r == '/' || r == ':' || r == '[' || r == ']' {
			return '-'
		}
		return r
	}, s)
	if len(s) > 48 {
		s = s[:48]
	}
	return s
}

// ---- parrots x Config shapes ----

type shape struct {
	name   string
	sni    string
	protos []string
	omit   bool // Config.OmitEmptyPsk
	cache  bool // Config.ClientSessionCache set (empty)
}

func longName(n int) string {
	var sb strings.Builder
	for sb.Len() < n {
		rem := n - sb.Len()
		l := 63
		if rem <= 63 {
			l = rem
		} else if rem == 64 {
			l = 62
		}
		sb.WriteString(strings.Repeat("w", l))
		if sb.Len() < n {
			sb.WriteByte('.')
		}
	}
	return sb.String()
}

func shapes() []shape {
	return []shape{
		{"plain", "example.com", nil, true, false},
		{"sni-empty", "", nil, true, false},
		{"sni-ipv4", "192.0.2.7", nil, true, false},
		{"sni-ipv6", "2001:db8::1", nil, true, true},
		{"sni-ipv6-bracket", "[::1]", nil, true, false},
		{"sni-trailing-dot", "a.b.", nil, true, false},
		{"sni-1", "x", nil, true, true},
		{"sni-253", longName(253), []string{"h2", "http/1.1"}, true, false},
		{"sni-255", longName(255), nil, true, false},
		{"alpn-1x255", "example.com", []string{strings.Repeat("p", 255)}, true, false},
		{"alpn-many", "example.org", []string{"h3", "h2", "http/1.1", "spdy/3.1", "x"}, true, true},
		{"alpn-empty-list", "example.net", []string{}, true, false},
		{"psk-not-omitted", "example.com", nil, false, false},
		{"psk-not-omitted-cache", "example.com", []string{"h2"}, false, true},
	}
}

func (s shape) config(seed int64) *tls.Config {
	cfg := &tls.Config{ServerName: s.sni, InsecureSkipVerify: true, OmitEmptyPsk: s.omit,
		NextProtos: s.protos, Rand: seedReader{rand.New(rand.NewSource(seed))}}
	if s.cache {
		cfg.ClientSessionCache = tls.NewLRUClientSessionCache(4)
	}
	return cfg
}

// buildID builds the hello of a ClientHelloID. A returned error is the legal way out.
func buildID(c *vh.Ctx, kind, key, desc string, id tls.ClientHelloID, cfg *tls.Config) []byte {
	var uc *tls.UConn
	var err error
	p, val := vh.Recover(func() {
		uc = tls.UClient(nullConn{}, cfg, id)
		err = uc.BuildHandshakeState()
	})
	if p {
		c.Fail("panic/"+panicSite(val)+"/"+key, "BuildHandshakeState panicked", obsInput{Key: key, Desc: desc}, fmt.Sprint(val), "ClientHello or error")
		return nil
	}
	if err != nil {
		c.Count("build-error/" + kind)
		if !strings.Contains(err.Error(), "empty psk") {
			// the only error a stock parrot may legitimately hit here is the PSK extension without a session
			c.Fail("build-error/"+key, "BuildHandshakeState failed for a predefined fingerprint", obsInput{Key: key, Desc: desc}, err.Error(), "ClientHello")
		}
		return nil
	}
	raw := uc.HandshakeState.Hello.Raw
	observe(c, kind, key, desc, raw, true)
	return raw
}

func runParrots(c *vh.Ctx) map[string][]byte {
	raws := map[string][]byte{}
	ps := hs.Parrots()
	c.Extra["parrots"] = len(ps)
	if len(ps) < 30 {
		c.Fail("parrot-list", "fewer predefined fingerprints than expected", nil, len(ps), ">= 30")
	}
	sh := shapes()
	for i, p := range ps {
		var pick []int
		if c.Tier == "quick" {
			// the plain shape plus three others, rotating so that every shape meets several parrots
			pick = []int{0, 1 + i%(len(sh)-1), 1 + (i+5)%(len(sh)-1), 1 + (i+9)%(len(sh)-1)}
		} else {
			for k := range sh {
				pick = append(pick, k)
			}
		}
		seen := map[int]bool{}
		for _, k := range pick {
			if seen[k] {
				continue
			}
			seen[k] = true
			s := sh[k]
			key := p.Name + "/" + s.name
			raw := buildID(c, "parrot", key, fmt.Sprintf("UClient(%s), ServerName=%q NextProtos=%q OmitEmptyPsk=%v cache=%v", p.Name, s.sni, s.protos, s.omit, s.cache),
				p.ID, s.config(c.Seed+int64(i*100+k)))
			if raw != nil && k == 0 {
				raws[p.Name] = raw
			}
		}
		{
			// one server-name length per fingerprint in the window where the nested server_name prefixes (n, n+3, n+5)
			// cross 256 one after the other, within the 253-byte DNS limit: 246..253, rotating
			l := 246 + (i+int(c.Seed))%8
			s := shape{name: fmt.Sprintf("sni-len-%d", l), sni: longName(l), omit: true}
			buildID(c, "parrot", p.Name+"/"+s.name, "server name length near the byte carry of the nested server_name length prefixes", p.ID, s.config(c.Seed+int64(l)))
		}
		if c.Tier != "quick" {
			// server-name length sweep
			for l := 1; l <= 255; l++ {
				if c.Tier == "thorough" && l%4 != i%4 && l < 250 {
					continue
				}
				s := shape{name: fmt.Sprintf("sni-len-%d", l), sni: longName(l), omit: true}
				buildID(c, "parrot-sweep", p.Name+"/"+s.name, "server name length sweep", p.ID, s.config(c.Seed+int64(l)))
			}
		}
	}
	return raws
}

func runRandomized(c *vh.Ctx) {
	n := 16
	if c.Tier != "quick" {
		n = c.N
	}
	sh := shapes()
	for i, p := range hs.RandomizedParrots(n, c.Seed) {
		s := sh[i%len(sh)]
		buildID(c, "randomized", fmt.Sprintf("%s/%s", p.Name, s.name), fmt.Sprintf("HelloRandomized seed %x", *p.ID.Seed), p.ID, s.config(c.Seed+int64(i)))
	}
	for i, id := range []tls.ClientHelloID{tls.HelloRandomizedALPN, tls.HelloRandomizedNoALPN} {
		var ps tls.PRNGSeed
		binary.BigEndian.PutUint64(ps[:], uint64(c.Seed)+uint64(i))
		id.Seed = &ps
		buildID(c, "randomized", fmt.Sprintf("%s/%d", id.Client, i), "randomized ALPN/NoALPN", id, sh[0].config(c.Seed))
	}
}

// ---- custom specs ----

type custom struct {
	key     string
	desc    string
	spec    *tls.ClientHelloSpec
	cfg     *tls.Config
	padto   int                            // AlwaysPadToLen argument of the spec's padding extension, if that is its functor
	big     map[tls.TLSExtension]string    // extensions rendered compactly instead of through ExtTerm
	tweak   func(h *tls.PubClientHelloMsg) // header edits between ApplyPreset and BuildHandshakeState
	wf      bool                           // generated inside the property's precondition
	mustErr string                         // non-empty: the spec cannot be encoded (reason) - an error is required
	cause   string                         // which length field the spec overflows (failure key)
	noCoq   bool                           // too large to ship to Coq as a term: Go-side oracles only
	oracle  bool                           // apply the validity oracle to a produced hello
}

func hdrTerm(h *tls.PubClientHelloMsg) string {
	sb := make([]byte, 0, 2*len(h.CipherSuites))
	for _, s := range h.CipherSuites {
		sb = append(sb, byte(s>>8), byte(s))
	}
	return fmt.Sprintf("%d %s %s %s %s", h.Vers, words(h.Random), words(h.SessionId), words(sb), words(h.CompressionMethods))
}

// runCustom builds one custom spec and emits its correspondence case (and oracle verdicts).
func runCustom(c *vh.Ctx, kind string, cu custom) {
	sink := &sinkConn{}
	var uc *tls.UConn
	var perr, berr error
	stage := "preset"
	p, val := vh.Recover(func() {
		uc = tls.UClient(sink, cu.cfg, tls.HelloCustom)
		if perr = uc.ApplyPreset(cu.spec); perr != nil {
			return
		}
		if perr = uc.ApplyConfig(); perr != nil {
			return
		}
		if cu.tweak != nil {
			cu.tweak(uc.HandshakeState.Hello)
		}
		stage = "build"
		berr = uc.BuildHandshakeState()
	})
	in := obsInput{Key: cu.key, Desc: cu.desc}
	if p {
		if cu.wf || cu.mustErr != "" {
			c.Fail("panic/"+panicSite(val)+"/"+cu.key, "building a custom spec panicked ("+stage+")", in, fmt.Sprint(val), "ClientHello or error")
		} else {
			c.Count("skipped-panic/" + kind)
		}
		return
	}
	if perr != nil {
		// refused before marshalling (ApplyPreset / ApplyConfig): an error, which the property allows
		c.Count("preset-error/" + kind)
		if cu.wf {
			c.Fail("preset-error/"+cu.key, "a spec within the property's limits was refused by ApplyPreset", in, perr.Error(), "ClientHello")
		}
		return
	}
	h := uc.HandshakeState.Hello
	ok := berr == nil
	var raw []byte
	if ok {
		raw = h.Raw
		sent := true
		if cu.mustErr != "" {
			// "BuildHandshakeState or Handshake returns an error": the hello may still be stopped by Handshake
			// (e.g. the NextProtos check of clientHandshake) - what counts is that it never leaves the client
			saved := append([]byte(nil), raw...)
			var herr error
			hp, _ := vh.Recover(func() { herr = uc.Handshake() })
			sent = hp || sink.written > 0 || herr == nil
			raw = saved
			if !sent {
				c.Count("refused-at-handshake/" + kind)
			}
		}
		if cu.mustErr != "" && sent {
			_, seen := strictWalk(raw)
			what := cu.cause
			if what == "" {
				what = "unencodable"
			}
			in.Raw = clip(raw)
			in.Desc += " [strict walk: " + seen + "]"
			c.Fail("malformed/"+what+"/"+cu.key, "the spec cannot be encoded ("+cu.mustErr+") but BuildHandshakeState returned nil and Hello.Raw holds "+fmt.Sprint(len(raw))+" bytes",
				in, what, "an error")
		} else if cu.oracle {
			observe(c, kind, cu.key, cu.desc, raw, false)
		}
	} else {
		c.Count("build-error/" + kind)
		if cu.wf && cu.mustErr == "" {
			// inside the precondition and, by construction, within every length field (C02_encodes_when_fits)
			c.Fail("refused/"+cu.key, "a spec within the property's limits whose sizes fit every length field was refused", in, berr.Error(), "ClientHello")
		}
	}
	if cu.noCoq {
		c.Count("go-only/" + kind)
		return
	}
	// the extension objects as MarshalClientHello saw them
	var its []string
	for _, e := range uc.Extensions {
		if t, isBig := cu.big[e]; isBig {
			its = append(its, t)
			continue
		}
		t, fine := extcoq.ExtTerm(e)
		if !fine {
			c.Count("skipped-unrenderable/" + kind)
			return
		}
		its = append(its, "CE "+t)
	}
	term := fmt.Sprintf("(CBuild %s %s %s %s %s %s)", vh.Z(int64(cu.padto)), hdrTerm(h), vh.List(its), vh.Bool(ok), words(raw), vh.Bool(cu.wf))
	c.Case("build/"+kind, term, cu.key, ok && len(its) > 0, nil)
}

// ---- generators ----

func rb(r *rand.Rand, n int) []byte {
	b := make([]byte, n)
	r.Read(b)
	return b
}

// size classes for list / string fields: mostly small, sometimes the wire boundary
func sz(r *rand.Rand, lo, hi int) int {
	switch x := r.Intn(20); {
	case x == 0:
		return hi
	case x == 1:
		return lo
	case x < 4:
		return lo + r.Intn(min(hi-lo, 60)+1)
	}
	return lo + r.Intn(min(hi-lo, 7)+1)
}

func u16s(r *rand.Rand, n int) []uint16 {
	out := make([]uint16, n)
	for i := range out {
		out[i] = uint16(r.Intn(65536))
		if hs.IsGREASE(out[i]) {
			out[i]++
		}
	}
	return out
}

func sigs(r *rand.Rand, n int) []tls.SignatureScheme {
	out := make([]tls.SignatureScheme, n)
	for i, v := range u16s(r, n) {
		out[i] = tls.SignatureScheme(v)
	}
	return out
}

func names(r *rand.Rand) []string {
	n := 1 + r.Intn(4)
	out := make([]string, n)
	for i := range out {
		out[i] = string(rb(r, sz(r, 1, 255)))
	}
	return out
}

var unknownIDs = []uint16{0x1234, 0x00ff, 0x7777, 0xabcd, 0x0100, 0xfe0c, 0x0039 + 1, 0x4469 + 2}

type extMaker struct {
	name string
	mk   func(r *rand.Rand, cu *custom) tls.TLSExtension
}

// wfMakers: one maker per built-in extension type, producing values within the RFC limits
func wfMakers() []extMaker {
	return []extMaker{
		{"sni", func(r *rand.Rand, cu *custom) tls.TLSExtension {
			if r.Intn(2) == 0 {
				return &tls.SNIExtension{} // filled from Config.ServerName
			}
			return &tls.SNIExtension{ServerName: longName(sz(r, 1, 255))}
		}},
		{"status", func(r *rand.Rand, cu *custom) tls.TLSExtension { return &tls.StatusRequestExtension{} }},
		{"status2", func(r *rand.Rand, cu *custom) tls.TLSExtension { return &tls.StatusRequestV2Extension{} }},
		{"curves", func(r *rand.Rand, cu *custom) tls.TLSExtension {
			e := &tls.SupportedCurvesExtension{}
			for _, v := range u16s(r, sz(r, 1, 40)) {
				e.Curves = append(e.Curves, tls.CurveID(v))
			}
			if r.Intn(2) == 0 {
				e.Curves[0] = tls.CurveID(tls.GREASE_PLACEHOLDER)
			}
			return e
		}},
		{"points", func(r *rand.Rand, cu *custom) tls.TLSExtension {
			return &tls.SupportedPointsExtension{SupportedPoints: rb(r, sz(r, 1, 255))}
		}},
		{"sigalgs", func(r *rand.Rand, cu *custom) tls.TLSExtension {
			return &tls.SignatureAlgorithmsExtension{SupportedSignatureAlgorithms: sigs(r, sz(r, 1, 40))}
		}},
		{"sigalgs-cert", func(r *rand.Rand, cu *custom) tls.TLSExtension {
			return &tls.SignatureAlgorithmsCertExtension{SupportedSignatureAlgorithms: sigs(r, sz(r, 1, 40))}
		}},
		{"alpn", func(r *rand.Rand, cu *custom) tls.TLSExtension { return &tls.ALPNExtension{AlpnProtocols: names(r)} }},
		{"alps", func(r *rand.Rand, cu *custom) tls.TLSExtension {
			return &tls.ApplicationSettingsExtension{SupportedProtocols: names(r)}
		}},
		{"alps-new", func(r *rand.Rand, cu *custom) tls.TLSExtension {
			return &tls.ApplicationSettingsExtensionNew{SupportedProtocols: names(r)}
		}},
		{"sct", func(r *rand.Rand, cu *custom) tls.TLSExtension { return &tls.SCTExtension{} }},
		{"generic", func(r *rand.Rand, cu *custom) tls.TLSExtension {
			return &tls.GenericExtension{Id: unknownIDs[r.Intn(len(unknownIDs))], Data: rb(r, sz(r, 0, 300))}
		}},
		{"ems", func(r *rand.Rand, cu *custom) tls.TLSExtension { return &tls.ExtendedMasterSecretExtension{} }},
		{"grease1", func(r *rand.Rand, cu *custom) tls.TLSExtension {
			return &tls.UtlsGREASEExtension{Value: greaseValues()[r.Intn(18)]}
		}},
		{"grease2", func(r *rand.Rand, cu *custom) tls.TLSExtension {
			return &tls.UtlsGREASEExtension{Value: greaseValues()[r.Intn(18)]}
		}},
		{"padding", func(r *rand.Rand, cu *custom) tls.TLSExtension {
			e := &tls.UtlsPaddingExtension{}
			switch r.Intn(4) {
			case 0:
				e.GetPaddingLen = tls.BoringPaddingStyle
			case 1:
				cu.padto = []int{0, 200, 512, 700, 1400, 4096}[r.Intn(6)]
				e.GetPaddingLen = tls.AlwaysPadToLen(cu.padto)
			case 2:
				e.WillPad, e.PaddingLen = true, sz(r, 0, 600)
			case 3:
				e.GetPaddingLen = tls.BoringPaddingStyle
				e.WillPad, e.PaddingLen = true, 3
			}
			return e
		}},
		{"compress-cert", func(r *rand.Rand, cu *custom) tls.TLSExtension {
			e := &tls.UtlsCompressCertExtension{}
			for _, v := range u16s(r, sz(r, 1, 127)) {
				e.Algorithms = append(e.Algorithms, tls.CertCompressionAlgo(v))
			}
			return e
		}},
		{"key-share", func(r *rand.Rand, cu *custom) tls.TLSExtension {
			e := &tls.KeyShareExtension{}
			for k := r.Intn(4); k > 0; k-- {
				switch r.Intn(5) {
				case 0:
					e.KeyShares = append(e.KeyShares, tls.KeyShare{Group: tls.X25519})
				case 1:
					e.KeyShares = append(e.KeyShares, tls.KeyShare{Group: tls.CurveP256})
				case 2:
					e.KeyShares = append(e.KeyShares, tls.KeyShare{Group: tls.CurveID(tls.GREASE_PLACEHOLDER), Data: []byte{0}})
				case 3:
					e.KeyShares = append(e.KeyShares, tls.KeyShare{Group: tls.X25519MLKEM768})
				default:
					e.KeyShares = append(e.KeyShares, tls.KeyShare{Group: tls.CurveID(0x4000 + r.Intn(256)), Data: rb(r, sz(r, 2, 300))})
				}
			}
			return e
		}},
		{"quic-tp", func(r *rand.Rand, cu *custom) tls.TLSExtension {
			e := &tls.QUICTransportParametersExtension{}
			for k := r.Intn(5); k > 0; k-- {
				switch r.Intn(5) {
				case 0:
					e.TransportParameters = append(e.TransportParameters, tls.MaxIdleTimeout(r.Uint64()>>uint(2+r.Intn(60))))
				case 1:
					e.TransportParameters = append(e.TransportParameters, tls.InitialMaxData(r.Uint64()>>uint(2+r.Intn(60))))
				case 2:
					e.TransportParameters = append(e.TransportParameters, &tls.DisableActiveMigration{})
				case 3:
					e.TransportParameters = append(e.TransportParameters, tls.InitialSourceConnectionID(rb(r, r.Intn(21))))
				default:
					e.TransportParameters = append(e.TransportParameters, &tls.FakeQUICTransportParameter{Id: 1 + uint64(r.Intn(5000)), Val: rb(r, sz(r, 0, 70))})
				}
			}
			return e
		}},
		{"psk-modes", func(r *rand.Rand, cu *custom) tls.TLSExtension {
			return &tls.PSKKeyExchangeModesExtension{Modes: rb(r, sz(r, 1, 255))}
		}},
		{"versions", func(r *rand.Rand, cu *custom) tls.TLSExtension {
			e := &tls.SupportedVersionsExtension{Versions: []uint16{tls.VersionTLS13, tls.VersionTLS12}}
			if r.Intn(2) == 0 {
				e.Versions = append([]uint16{tls.GREASE_PLACEHOLDER}, e.Versions...)
			}
			if r.Intn(10) == 0 {
				e.Versions = append(e.Versions, u16s(r, 127-len(e.Versions))...)
			}
			return e
		}},
		{"cookie", func(r *rand.Rand, cu *custom) tls.TLSExtension {
			return &tls.CookieExtension{Cookie: rb(r, sz(r, 1, 300))}
		}},
		{"npn", func(r *rand.Rand, cu *custom) tls.TLSExtension { return &tls.NPNExtension{} }},
		{"reneg", func(r *rand.Rand, cu *custom) tls.TLSExtension {
			return &tls.RenegotiationInfoExtension{Renegotiation: tls.RenegotiateOnceAsClient, RenegotiatedConnection: rb(r, sz(r, 0, 255))}
		}},
		{"channel-id", func(r *rand.Rand, cu *custom) tls.TLSExtension {
			return &tls.FakeChannelIDExtension{OldExtensionID: r.Intn(2) == 0}
		}},
		{"record-size-limit", func(r *rand.Rand, cu *custom) tls.TLSExtension {
			return &tls.FakeRecordSizeLimitExtension{Limit: uint16(r.Intn(65536))}
		}},
		{"token-binding", func(r *rand.Rand, cu *custom) tls.TLSExtension {
			return &tls.FakeTokenBindingExtension{MajorVersion: uint8(r.Intn(256)), MinorVersion: uint8(r.Intn(256)), KeyParameters: rb(r, sz(r, 0, 255))}
		}},
		{"delegated-credentials", func(r *rand.Rand, cu *custom) tls.TLSExtension {
			return &tls.FakeDelegatedCredentialsExtension{SupportedSignatureAlgorithms: sigs(r, sz(r, 1, 40))}
		}},
		{"session-ticket", func(r *rand.Rand, cu *custom) tls.TLSExtension { return &tls.SessionTicketExtension{} }},
		{"grease-ech", func(r *rand.Rand, cu *custom) tls.TLSExtension {
			e := &tls.GREASEEncryptedClientHelloExtension{}
			if r.Intn(2) == 0 {
				e.CandidateCipherSuites = []tls.HPKESymmetricCipherSuite{{KdfId: 1, AeadId: uint16(1 + r.Intn(3))}}
				e.CandidatePayloadLens = []uint16{uint16(sz(r, 1, 300))}
			}
			return e
		}},
	}
}

func pskMaker(r *rand.Rand) tls.TLSExtension {
	if r.Intn(3) == 0 {
		return &tls.UtlsPreSharedKeyExtension{OmitEmptyPsk: true} // no session: writes nothing
	}
	e := &tls.FakePreSharedKeyExtension{OmitEmptyPsk: true}
	for k := 1 + r.Intn(3); k > 0; k-- {
		e.Identities = append(e.Identities, tls.PskIdentity{Label: rb(r, sz(r, 1, 300)), ObfuscatedTicketAge: r.Uint32()})
		e.Binders = append(e.Binders, rb(r, []int{32, 48}[r.Intn(2)]))
	}
	return e
}

func baseSuites(r *rand.Rand) []uint16 {
	all := []uint16{tls.GREASE_PLACEHOLDER, tls.TLS_AES_128_GCM_SHA256, tls.TLS_AES_256_GCM_SHA384, tls.TLS_CHACHA20_POLY1305_SHA256,
		tls.TLS_ECDHE_ECDSA_WITH_AES_128_GCM_SHA256, tls.TLS_ECDHE_RSA_WITH_AES_128_GCM_SHA256, tls.TLS_RSA_WITH_AES_128_CBC_SHA, 0x00ff}
	n := 1 + r.Intn(len(all))
	out := append([]uint16{}, all[:n]...)
	r.Shuffle(len(out), func(i, j int) { out[i], out[j] = out[j], out[i] })
	return out
}

func customCfg(r *rand.Rand, seed int64) *tls.Config {
	snis := []string{"example.com", "", "10.0.0.1", "a.b.", "x", longName(253), "fe80::1%eth0"}
	rd, _ := controlledRand(r)
	cfg := &tls.Config{ServerName: snis[r.Intn(len(snis))], InsecureSkipVerify: true, OmitEmptyPsk: true, Rand: rd}
	if r.Intn(3) == 0 {
		// the caller's Config already holds values for the fields ApplyConfig copies from the spec's extensions
		cfg.NextProtos = [][]string{{"h2", "http/1.1"}, {"spdy/3.1"}, {strings.Repeat("n", 255)}}[r.Intn(3)]
		cfg.CurvePreferences = []tls.CurveID{tls.X25519, tls.CurveP256}
		cfg.Renegotiation = tls.RenegotiateOnceAsClient
		cfg.ClientSessionCache = tls.NewLRUClientSessionCache(2)
	}
	return cfg
}

// genWF: a spec inside the precondition: random subset of the extension types, each at most once,
// random order, pre_shared_key (if any) last
func genWF(r *rand.Rand, i int, seed int64) custom {
	cu := custom{key: fmt.Sprintf("wf/%d", i), wf: true, oracle: true, cfg: customCfg(r, seed)}
	mk := wfMakers()
	r.Shuffle(len(mk), func(a, b int) { mk[a], mk[b] = mk[b], mk[a] })
	n := r.Intn(len(mk) + 1)
	if r.Intn(6) == 0 {
		n = len(mk)
	}
	var exts []tls.TLSExtension
	var kinds []string
	for _, m := range mk[:n] {
		exts = append(exts, m.mk(r, &cu))
		kinds = append(kinds, m.name)
	}
	if r.Intn(3) == 0 {
		exts = append(exts, pskMaker(r))
		kinds = append(kinds, "psk")
	}
	cu.spec = &tls.ClientHelloSpec{TLSVersMin: tls.VersionTLS12, TLSVersMax: tls.VersionTLS13, CipherSuites: baseSuites(r),
		CompressionMethods: []byte{0}, Extensions: exts}
	switch r.Intn(8) {
	case 0:
		l := []int{0, 1, 31, 32}[r.Intn(4)]
		cu.tweak = func(h *tls.PubClientHelloMsg) { h.SessionId = rb(r, l) }
		kinds = append(kinds, fmt.Sprintf("sid=%d", l))
	case 1:
		l := 1 + r.Intn(3)
		cu.tweak = func(h *tls.PubClientHelloMsg) { h.CompressionMethods = rb(r, l) }
		kinds = append(kinds, fmt.Sprintf("comp=%d", l))
	}
	cu.desc = "custom spec within RFC limits: " + strings.Join(kinds, ",")
	return cu
}

// genAny: a spec from the shared generators of harness/extcoq, NOT restricted to the RFC minimum sizes,
// duplicates allowed: only the model/code correspondence applies
func genAny(r *rand.Rand, i int, seed int64) custom {
	cu := custom{key: fmt.Sprintf("any/%d", i), cfg: customCfg(r, seed), padto: 512}
	gens := extcoq.Generators()
	var exts []tls.TLSExtension
	var kinds []string
	for k := r.Intn(9); k > 0; k-- {
		g := gens[r.Intn(len(gens))]
		if strings.Contains(g.Name, "PreSharedKey") || g.Name == "SessionTicketExtension" {
			continue // kept for the end / refused by the session controller when repeated
		}
		size := []int{0, 1, 2, 3, 7, 20}[r.Intn(6)]
		exts = append(exts, g.Make(r, size))
		kinds = append(kinds, g.Name)
	}
	if r.Intn(3) == 0 {
		for _, g := range gens {
			if g.Name == "FakePreSharedKeyExtension" {
				exts = append(exts, g.Make(r, r.Intn(6)))
				kinds = append(kinds, g.Name)
			}
		}
	}
	cu.spec = &tls.ClientHelloSpec{TLSVersMin: tls.VersionTLS10, TLSVersMax: tls.VersionTLS13, CipherSuites: baseSuites(r)[:r.Intn(3)],
		CompressionMethods: []byte{0}, Extensions: exts}
	cu.desc = "unrestricted custom spec: " + strings.Join(kinds, ",")
	return cu
}

// bigGeneric: &GenericExtension{Id: id, Data: n x fill}, rendered compactly for Coq
func bigGeneric(cu *custom, id uint16, n int, fill byte) tls.TLSExtension {
	e := &tls.GenericExtension{Id: id, Data: []byte(strings.Repeat(string([]byte{fill}), n))}
	if cu.big == nil {
		cu.big = map[tls.TLSExtension]string{}
	}
	cu.big[e] = fmt.Sprintf("CBig %d %d %d", id, n, fill)
	return e
}

// corpus: inputs kept from the defects this check found, and the boundaries around them
func corpus(c *vh.Ctx) []custom {
	std := func() []uint16 {
		return []uint16{tls.TLS_AES_128_GCM_SHA256, tls.TLS_ECDHE_RSA_WITH_AES_128_GCM_SHA256}
	}
	cfg := func() *tls.Config {
		return &tls.Config{ServerName: "example.com", InsecureSkipVerify: true, OmitEmptyPsk: true, Rand: seedReader{rand.New(rand.NewSource(c.Seed))}}
	}
	mk := func(key, desc string, f func(cu *custom) []tls.TLSExtension) custom {
		cu := custom{key: "corpus/" + key, desc: desc, cfg: cfg()}
		exts := f(&cu)
		cu.spec = &tls.ClientHelloSpec{TLSVersMin: tls.VersionTLS12, TLSVersMax: tls.VersionTLS13, CipherSuites: std(), CompressionMethods: []byte{0}, Extensions: exts}
		return cu
	}
	var out []custom
	// F-02b: every extension within its own limit, the block beyond 65535 bytes
	cu := mk("ext-block-2x40000", "two GenericExtensions of 40000 bytes each: extension block 80008 bytes (DESIGN F-02b)", func(cu *custom) []tls.TLSExtension {
		return []tls.TLSExtension{bigGeneric(cu, 0x1234, 40000, 0xaa), bigGeneric(cu, 0x1235, 40000, 0xbb)}
	})
	cu.wf, cu.mustErr, cu.cause = true, "extension block of 80008 bytes does not fit the uint16 length", "extensions-length"
	out = append(out, cu)
	cu = mk("ext-block-65536", "SNI-less spec whose extension block is exactly 65536 bytes", func(cu *custom) []tls.TLSExtension {
		return []tls.TLSExtension{&tls.ExtendedMasterSecretExtension{}, bigGeneric(cu, 0x1234, 65536-4-4, 0x11)}
	})
	cu.wf, cu.mustErr, cu.cause = true, "extension block of 65536 bytes does not fit the uint16 length", "extensions-length"
	out = append(out, cu)
	cu = mk("ext-block-padding-65536+", "padding extension with a hand-set length pushes the block beyond 65535", func(cu *custom) []tls.TLSExtension {
		return []tls.TLSExtension{bigGeneric(cu, 0x1234, 40000, 0x22), &tls.UtlsPaddingExtension{WillPad: true, PaddingLen: 30000}}
	})
	cu.wf, cu.mustErr, cu.cause = true, "extension block beyond 65535 bytes", "extensions-length"
	out = append(out, cu)
	cu = mk("single-ext-70000", "one GenericExtension of 70000 bytes (its own length field wraps too)", func(cu *custom) []tls.TLSExtension {
		return []tls.TLSExtension{bigGeneric(cu, 0x1234, 70000, 0x33)}
	})
	cu.mustErr, cu.cause = "extension of 70004 bytes", "extensions-length"
	out = append(out, cu)
	{
		cu = mk("ext-block-65535", "extension block of exactly 65535 bytes: the largest encodable", func(cu *custom) []tls.TLSExtension {
			return []tls.TLSExtension{&tls.ExtendedMasterSecretExtension{}, bigGeneric(cu, 0x1234, 65535-4-4, 0x44)}
		})
		cu.wf, cu.oracle = true, true
		out = append(out, cu)
	}
	// header fields beyond their one/two-byte length prefixes
	hdr := func(key, desc, must string, wf bool, tw func(h *tls.PubClientHelloMsg)) {
		cause := map[string]string{"sid-256": "session-id-length", "comp-256": "compression-methods-length", "suites-32768": "cipher-suites-length", "random-31": "random-length"}[key]
		cu := mk(key, desc, func(cu *custom) []tls.TLSExtension {
			return []tls.TLSExtension{&tls.SNIExtension{}, &tls.SupportedVersionsExtension{Versions: []uint16{tls.VersionTLS13, tls.VersionTLS12}}}
		})
		cu.tweak, cu.mustErr, cu.wf, cu.oracle, cu.cause = tw, must, wf, wf, cause
		out = append(out, cu)
	}
	fillb := func(n int) []byte { return []byte(strings.Repeat("s", n)) }
	hdr("sid-256", "Hello.SessionId of 256 bytes: uint8(len) wraps to 0", "session id of 256 bytes", false, func(h *tls.PubClientHelloMsg) { h.SessionId = fillb(256) })
	hdr("sid-255", "Hello.SessionId of 255 bytes (encodable, not RFC)", "", false, func(h *tls.PubClientHelloMsg) { h.SessionId = fillb(255) })
	hdr("sid-33", "Hello.SessionId of 33 bytes (encodable, not RFC)", "", false, func(h *tls.PubClientHelloMsg) { h.SessionId = fillb(33) })
	hdr("sid-0", "empty session id", "", true, func(h *tls.PubClientHelloMsg) { h.SessionId = nil })
	hdr("comp-256", "256 compression methods: uint8(len) wraps to 0", "256 compression methods", false, func(h *tls.PubClientHelloMsg) { h.CompressionMethods = fillb(256) })
	hdr("comp-255", "255 compression methods", "", true, func(h *tls.PubClientHelloMsg) { h.CompressionMethods = fillb(255) })
	hdr("comp-0", "no compression method (encodable, not RFC)", "", false, func(h *tls.PubClientHelloMsg) { h.CompressionMethods = nil })
	hdr("suites-0", "no cipher suite (encodable, not RFC)", "", false, func(h *tls.PubClientHelloMsg) { h.CipherSuites = nil })
	hdr("random-31", "31-byte random: the length accounting assumes 32", "random of 31 bytes", false, func(h *tls.PubClientHelloMsg) { h.Random = fillb(31) })
	many := func(n int) []uint16 {
		out := make([]uint16, n)
		for i := range out {
			out[i] = uint16(0x1301 + i%5)
		}
		return out
	}
	hdr("suites-32768", "32768 cipher suites: uint16(len<<1) wraps to 0", "32768 cipher suites", false, func(h *tls.PubClientHelloMsg) { h.CipherSuites = many(32768) })
	if c.Tier != "quick" {
		hdr("suites-32767", "32767 cipher suites: the largest encodable list", "", true, func(h *tls.PubClientHelloMsg) { h.CipherSuites = many(32767) })
	}
	// two padding extensions: refused
	cu = mk("two-paddings", "two padding extensions", func(cu *custom) []tls.TLSExtension {
		return []tls.TLSExtension{&tls.UtlsPaddingExtension{WillPad: true, PaddingLen: 5}, &tls.SNIExtension{}, &tls.UtlsPaddingExtension{WillPad: true, PaddingLen: 9}}
	})
	cu.mustErr, cu.cause = "two padding extensions", "duplicate-extension/21"
	out = append(out, cu)
	// no extensions at all
	cu = mk("no-extensions", "spec without extensions: the extensions vector is absent", func(cu *custom) []tls.TLSExtension { return nil })
	cu.wf, cu.oracle = true, true
	out = append(out, cu)
	return out
}

// ---- fingerprinted and imported specs ----

func record(raw []byte) []byte {
	return append([]byte{0x16, 0x03, 0x01, byte(len(raw) >> 8), byte(len(raw))}, raw...)
}

func runFingerprinted(c *vh.Ctx, raws map[string][]byte) {
	var names []string
	for n := range raws {
		names = append(names, n)
	}
	sort.Strings(names)
	if c.Tier == "quick" {
		c.Rng.Shuffle(len(names), func(i, j int) { names[i], names[j] = names[j], names[i] })
		names = names[:min(len(names), 12)]
		sort.Strings(names)
	}
	snis := []string{"example.com", "", "x", longName(200), "192.0.2.1"}
	for i, n := range names {
		raw := raws[n]
		if len(raw) > 16384 {
			continue
		}
		for k, blunt := range []bool{false, true} {
			f := &tls.Fingerprinter{AllowBluntMimicry: blunt, AlwaysAddPadding: k == 1 && i%2 == 0}
			var spec *tls.ClientHelloSpec
			var err error
			p, val := vh.Recover(func() { spec, err = f.FingerprintClientHello(record(raw)) })
			key := fmt.Sprintf("fingerprint/%s/blunt=%v", n, blunt)
			if p {
				c.Fail("panic/"+panicSite(val)+"/"+key, "FingerprintClientHello panicked on the library's own ClientHello", obsInput{key, "", clip(raw)}, fmt.Sprint(val), "spec")
				continue
			}
			if err != nil {
				c.Count("fingerprint-refused")
				continue
			}
			sni := snis[(i+k)%len(snis)]
			cfg := &tls.Config{ServerName: sni, InsecureSkipVerify: true, OmitEmptyPsk: true, Rand: seedReader{rand.New(rand.NewSource(c.Seed + int64(i)))}}
			var uc *tls.UConn
			var berr error
			p, val = vh.Recover(func() {
				uc = tls.UClient(nullConn{}, cfg, tls.HelloCustom)
				if berr = uc.ApplyPreset(spec); berr == nil {
					berr = uc.BuildHandshakeState()
				}
			})
			desc := fmt.Sprintf("spec fingerprinted (AllowBluntMimicry=%v AlwaysAddPadding=%v) from the ClientHello of %s, re-applied with ServerName %q", blunt, f.AlwaysAddPadding, n, sni)
			if p {
				c.Fail("panic/"+panicSite(val)+"/"+key, "applying a fingerprinted spec panicked", obsInput{key, desc, clip(raw)}, fmt.Sprint(val), "ClientHello or error")
				continue
			}
			if berr != nil {
				c.Count("build-error/fingerprinted")
				continue
			}
			observe(c, "fingerprinted", key, desc, uc.HandshakeState.Hello.Raw, true)
		}
	}
}

func runJSON(c *vh.Ctx) {
	repo := os.Getenv("VERIF_REPO")
	if repo == "" {
		repo = "/repo"
	}
	files, _ := filepath.Glob(filepath.Join(repo, "testdata", "ClientHello-JSON-*.json"))
	sort.Strings(files)
	for i, f := range files {
		data, err := os.ReadFile(f)
		if err != nil {
			continue
		}
		name := strings.TrimSuffix(strings.TrimPrefix(filepath.Base(f), "ClientHello-JSON-"), ".json")
		key := "json/" + name
		spec := &tls.ClientHelloSpec{}
		var berr error
		var uc *tls.UConn
		p, val := vh.Recover(func() {
			if berr = spec.UnmarshalJSON(data); berr != nil {
				return
			}
			cfg := &tls.Config{ServerName: "json.example", InsecureSkipVerify: true, OmitEmptyPsk: true, Rand: seedReader{rand.New(rand.NewSource(c.Seed + int64(i)))}}
			uc = tls.UClient(nullConn{}, cfg, tls.HelloCustom)
			if berr = uc.ApplyPreset(spec); berr == nil {
				berr = uc.BuildHandshakeState()
			}
		})
		if p {
			c.Fail("panic/"+panicSite(val)+"/"+key, "JSON-imported spec panicked", obsInput{Key: key, Desc: f}, fmt.Sprint(val), "ClientHello or error")
			continue
		}
		if berr != nil {
			c.Count("build-error/json")
			continue
		}
		observe(c, "json", key, "spec imported from "+filepath.Base(f), uc.HandshakeState.Hello.Raw, true)
	}
}

func run(c *vh.Ctx) {
	// 1. corpus (always the same inputs)
	for _, cu := range corpus(c) {
		runCustom(c, "corpus", cu)
	}
	// 2. predefined fingerprints x Config shapes
	raws := runParrots(c)
	// 3. randomized fingerprints
	runRandomized(c)
	// 4. custom specs inside the precondition, 5. unrestricted ones
	nwf, nany := c.N, c.N/2
	for i := 0; i < nwf; i++ {
		runCustom(c, "wf", genWF(c.Rng, i, c.Seed+int64(i)))
	}
	for i := 0; i < nany; i++ {
		runCustom(c, "any", genAny(c.Rng, i, c.Seed+int64(i)))
	}
	// 6. fingerprinted captures of the library's own output, 7. JSON-imported specs
	runFingerprinted(c, raws)
	runFingerprintMatrix(c, raws)
	runJSON(c)
	runQUIC(c)
	runGrease(c)
	runHRR(c, raws)
	for _, cu := range limitCases(c) {
		runCustom(c, "limits", cu)
	}
}

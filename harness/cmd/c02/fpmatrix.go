package main

import (
	"fmt"
	"math/rand"
	"sort"

	tls "github.com/refraction-networking/utls"
	"verif/harness/vh"
)

// runFingerprintMatrix: "a spec obtained by fingerprinting a syntactically valid ClientHello" under EVERY
// Fingerprinter flag combination (AllowBluntMimicry x AlwaysAddPadding x RealPSKResumption), from source hellos
// with and without a padding extension and with and without pre_shared_key (custom TLS 1.3 hellos of the four
// classes, plus the library's own fingerprints with / without padding on the wire).  The spec is applied to a
// fresh connection under a few server names; a panic anywhere on the way is a failure (panic/build/<class>), a
// produced hello goes through both oracles.
func runFingerprintMatrix(c *vh.Ctx, raws map[string][]byte) {
	type source struct {
		name string
		raw  []byte
	}
	var sources []source
	build := func(name string, spec *tls.ClientHelloSpec, sni string) {
		cfg := &tls.Config{ServerName: sni, InsecureSkipVerify: true, OmitEmptyPsk: true, Rand: seedReader{rand.New(rand.NewSource(c.Seed))}}
		var uc *tls.UConn
		var err error
		if p, _ := vh.Recover(func() {
			uc = tls.UClient(nullConn{}, cfg, tls.HelloCustom)
			if err = uc.ApplyPreset(spec); err == nil {
				err = uc.BuildHandshakeState()
			}
		}); p || err != nil {
			c.Count("fp-matrix-source-failed")
			return
		}
		if _, what := strictWalk(uc.HandshakeState.Hello.Raw); what != "" {
			c.Count("fp-matrix-source-invalid")
			return
		}
		sources = append(sources, source{name, append([]byte(nil), uc.HandshakeState.Hello.Raw...)})
	}
	pad := func(n int) []tls.TLSExtension {
		return []tls.TLSExtension{&tls.ExtendedMasterSecretExtension{}, &tls.ALPNExtension{AlpnProtocols: []string{"h2", "http/1.1"}},
			&tls.UtlsPaddingExtension{WillPad: true, PaddingLen: n}}
	}
	nopad := []tls.TLSExtension{&tls.ExtendedMasterSecretExtension{}, &tls.StatusRequestExtension{}}
	build("custom-psk-nopad", tls13Spec(nopad, pskTail(0)), "fp.example")
	build("custom-psk2-nopad", tls13Spec(nil, pskTail(1)), "fp.example")
	build("custom-psk-pad", tls13Spec(pad(37), pskTail(0)), "fp.example")
	build("custom-psk-emptypad", tls13Spec(pad(0), pskTail(1)), "")
	build("custom-nopsk-nopad", tls13Spec(nopad, nil), "fp.example")
	build("custom-nopsk-pad", tls13Spec(pad(120), nil), "fp.example")
	// the library's own fingerprints: one with a padding extension on the wire, one without, rotating with the seed
	var names []string
	for n := range raws {
		names = append(names, n)
	}
	sort.Strings(names)
	var withPad, without []string
	for _, n := range names {
		ch, what := strictWalk(raws[n])
		if what != "" || len(raws[n]) > 16384 {
			continue
		}
		has := false
		for _, e := range ch.Exts {
			if e.ID == 21 {
				has = true
			}
		}
		if has {
			withPad = append(withPad, n)
		} else {
			without = append(without, n)
		}
	}
	take := 1
	if c.Tier != "quick" {
		take = 100
	}
	for _, l := range [][]string{withPad, without} {
		for k := 0; k < take && k < len(l); k++ {
			n := l[(int(c.Seed)+k)%len(l)]
			sources = append(sources, source{"parrot-" + n, raws[n]})
		}
	}
	snis := []string{"other.example", "", longName(180)}
	for si, src := range sources {
		for flags := 0; flags < 8; flags++ {
			f := &tls.Fingerprinter{AllowBluntMimicry: flags&1 != 0, AlwaysAddPadding: flags&2 != 0, RealPSKResumption: flags&4 != 0}
			class := fmt.Sprintf("fp-%s/blunt=%v,pad=%v,realpsk=%v", src.name, f.AllowBluntMimicry, f.AlwaysAddPadding, f.RealPSKResumption)
			desc := fmt.Sprintf("spec fingerprinted with %+v from the valid ClientHello %s", *f, src.name)
			in := obsInput{Key: class, Desc: desc, Raw: clip(src.raw)}
			var spec *tls.ClientHelloSpec
			var err error
			if p, val := vh.Recover(func() { spec, err = f.FingerprintClientHello(record(src.raw)) }); p {
				c.Fail("panic/fingerprint/"+class, "FingerprintClientHello panicked on a valid ClientHello", in, fmt.Sprint(val), "spec or error")
				continue
			}
			if err != nil {
				c.Count("fp-matrix-refused")
				continue
			}
			nsni := 1
			if c.Tier != "quick" {
				nsni = len(snis)
			}
			for k := 0; k < nsni; k++ {
				sni := snis[(si+flags+k)%len(snis)]
				if k > 0 { // the spec's extension objects are written by ApplyPreset: a fresh spec per connection
					if spec, err = f.FingerprintClientHello(record(src.raw)); err != nil {
						break
					}
				}
				cfg := &tls.Config{ServerName: sni, InsecureSkipVerify: true, OmitEmptyPsk: true,
					Rand: seedReader{rand.New(rand.NewSource(c.Seed + int64(si*64+flags*8+k)))}}
				var uc *tls.UConn
				var berr error
				if p, val := vh.Recover(func() {
					uc = tls.UClient(nullConn{}, cfg, tls.HelloCustom)
					if berr = uc.ApplyPreset(spec); berr == nil {
						berr = uc.BuildHandshakeState()
					}
				}); p {
					c.Fail("panic/build/"+class, "applying / building a fingerprinted spec panicked", in, fmt.Sprint(val), "ClientHello or error")
					continue
				}
				if berr != nil {
					c.Count("build-error/fp-matrix")
					continue
				}
				observe(c, "fp-matrix", fmt.Sprintf("%s/sni%d", class, len(sni)), desc+fmt.Sprintf(", re-applied with a %d-byte server name", len(sni)), uc.HandshakeState.Hello.Raw, true)
			}
		}
	}
	c.Extra["fp_matrix_sources"] = len(sources)
}

package main

import (
	"fmt"
	"io"
	"math/rand"

	tls "github.com/refraction-networking/utls"
	"verif/harness/vh"
)

// Controlled Config.Rand sources: ApplyPreset derives the GREASE values (and the random / session id)
// from it, so constant-byte and counting readers reach every GREASE seed class deterministically.
type constReader byte

func (r constReader) Read(b []byte) (int, error) {
	for i := range b {
		b[i] = byte(r)
	}
	return len(b), nil
}

type countReader struct{ next *byte }

func (r countReader) Read(b []byte) (int, error) {
	for i := range b {
		b[i] = *r.next
		*r.next++
	}
	return len(b), nil
}

func newCountReader(start byte) io.Reader { s := start; return countReader{&s} }

// controlledRand picks one of the reader kinds; name is stable (used in keys)
func controlledRand(r *rand.Rand) (io.Reader, string) {
	switch r.Intn(3) {
	case 0:
		b := byte(1 + r.Intn(254)) // not 0x00 / 0xff: NIST-curve key generation rejects those scalars forever
		return constReader(b), fmt.Sprintf("const%02x", b)
	case 1:
		b := byte(r.Intn(256))
		return newCountReader(b), fmt.Sprintf("count%02x", b)
	}
	s := r.Int63()
	return seedReader{rand.New(rand.NewSource(s))}, "seeded"
}

// greaseValues: 0 = field left unset, the placeholder, and the 16 GREASE values
func greaseValues() []uint16 {
	out := []uint16{0, tls.GREASE_PLACEHOLDER}
	for i := 0; i < 16; i++ {
		out = append(out, uint16(i<<4|0x0a)*0x0101)
	}
	return out
}

// runGrease: specs with one or two UtlsGREASEExtensions carrying explicit values (unset, placeholder, each of
// the 16 GREASE values; one explicit + one not; both explicit) under constant-byte / counting / seeded
// Config.Rand. GREASE values also appear in cipher suites, groups, versions and key shares of the spec.
// Oracle unchanged: valid ClientHello, in particular no extension type twice.
func runGrease(c *vh.Ctx) {
	vals := greaseValues()
	type rd struct {
		name string
		mk   func() io.Reader
	}
	var readers []rd
	for hi := 0; hi < 16; hi++ {
		b := byte(hi<<4 | (hi*7+3)&0x0f)
		readers = append(readers, rd{fmt.Sprintf("const%02x", b), func() io.Reader { return constReader(b) }})
	}
	for _, st := range []byte{0, 0x3d, 0xf7} {
		st := st
		readers = append(readers, rd{fmt.Sprintf("count%02x", st), func() io.Reader { return newCountReader(st) }})
	}
	if c.Tier != "quick" {
		for k := 0; k < 40; k++ {
			s := c.Seed*977 + int64(k)
			readers = append(readers, rd{fmt.Sprintf("seeded%d", k), func() io.Reader { return seedReader{rand.New(rand.NewSource(s))} }})
		}
	}
	n := 0
	for _, v1 := range vals {
		for _, v2 := range vals {
			// quick: one side explicit and the other drawn, or both drawn, or both explicit on a diagonal band
			if c.Tier == "quick" && v1 > tls.GREASE_PLACEHOLDER && v2 > tls.GREASE_PLACEHOLDER && (v1>>12+v2>>12)%5 != 0 {
				continue
			}
			for ri, rdr := range readers {
				if c.Tier == "quick" && v1 <= tls.GREASE_PLACEHOLDER && v2 <= tls.GREASE_PLACEHOLDER && ri%4 != 0 {
					continue
				}
				n++
				spec := &tls.ClientHelloSpec{TLSVersMin: tls.VersionTLS12, TLSVersMax: tls.VersionTLS13,
					CipherSuites:       []uint16{tls.GREASE_PLACEHOLDER, tls.TLS_AES_128_GCM_SHA256, tls.TLS_ECDHE_RSA_WITH_AES_128_GCM_SHA256},
					CompressionMethods: []byte{0},
					Extensions: []tls.TLSExtension{
						&tls.UtlsGREASEExtension{Value: v1},
						&tls.SNIExtension{},
						&tls.SupportedCurvesExtension{Curves: []tls.CurveID{tls.GREASE_PLACEHOLDER, tls.X25519}},
						&tls.SupportedVersionsExtension{Versions: []uint16{tls.GREASE_PLACEHOLDER, tls.VersionTLS13, tls.VersionTLS12}},
						&tls.KeyShareExtension{KeyShares: []tls.KeyShare{{Group: tls.GREASE_PLACEHOLDER, Data: []byte{0}}, {Group: tls.X25519}}},
						&tls.UtlsGREASEExtension{Value: v2},
					}}
				if n%3 == 0 {
					spec.Extensions = spec.Extensions[:5] // a single GREASE extension
				}
				key := fmt.Sprintf("grease/%04x-%04x/%s", v1, v2, rdr.name)
				desc := fmt.Sprintf("custom spec with UtlsGREASEExtension values 0x%04x / 0x%04x (%d GREASE extensions), Config.Rand = %s", v1, v2, len(spec.Extensions)-4, rdr.name)
				cfg := &tls.Config{ServerName: "grease.example", InsecureSkipVerify: true, OmitEmptyPsk: true, Rand: rdr.mk()}
				var uc *tls.UConn
				var err error
				p, val := vh.Recover(func() {
					uc = tls.UClient(nullConn{}, cfg, tls.HelloCustom)
					if err = uc.ApplyPreset(spec); err == nil {
						err = uc.BuildHandshakeState()
					}
				})
				if p {
					c.Fail("panic/"+panicSite(val)+"/"+key, "building a spec with explicit GREASE values panicked", obsInput{Key: key, Desc: desc}, fmt.Sprint(val), "ClientHello or error")
					continue
				}
				if err != nil {
					c.Count("build-error/grease")
					continue
				}
				// all of them to the Go oracle; to the Coq oracle a sample, and every hello the Go oracle rejects
				raw := uc.HandshakeState.Hello.Raw
				_, what := strictWalk(raw)
				observe(c, "grease", key, desc, raw, what != "" || n%20 == 0)
			}
		}
	}
	c.Extra["grease_builds"] = n
}

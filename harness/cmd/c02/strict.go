// Go-side oracle for C02, written from the property text and the RFCs, independent of the
// Coq grammar (Model/Strict.v) and of the code under test: a strict walk over a ClientHello
// handshake message that reports the FIRST thing that is wrong with it.
//
//	every length prefix matches its body (handshake uint24, session id, cipher suites,
//	compression methods, extensions block, each extension, vectors inside known bodies);
//	no extension type repeats; pre_shared_key is last; known extension bodies follow their grammar.
package main

import "fmt"

type sr struct {
	b   []byte
	bad bool
}

func (r *sr) n() int { return len(r.b) }
func (r *sr) take(n int) []byte {
	if r.bad || n < 0 || n > len(r.b) {
		r.bad = true
		return nil
	}
	out := r.b[:n]
	r.b = r.b[n:]
	return out
}
func (r *sr) u8() int {
	v := r.take(1)
	if v == nil {
		return 0
	}
	return int(v[0])
}
func (r *sr) u16() int {
	v := r.take(2)
	if v == nil {
		return 0
	}
	return int(v[0])<<8 | int(v[1])
}
func (r *sr) u24() int {
	v := r.take(3)
	if v == nil {
		return 0
	}
	return int(v[0])<<16 | int(v[1])<<8 | int(v[2])
}
func (r *sr) vec(n int) *sr {
	b := r.take(n)
	return &sr{b: b, bad: r.bad}
}
func (r *sr) vec8() *sr  { return r.vec(r.u8()) }
func (r *sr) vec16() *sr { return r.vec(r.u16()) }

// wireExt: one extension as found on the wire
type wireExt struct {
	ID   uint16
	Body []byte
}

type wireCH struct {
	Vers    uint16
	Random  []byte
	Sid     []byte
	Suites  []uint16
	Comp    []byte
	HasExts bool
	Exts    []wireExt
}

// strictWalk returns "" when msg is a valid ClientHello, else a short stable reason
// (used as the middle part of the failure key).
func strictWalk(msg []byte) (*wireCH, string) {
	r := &sr{b: msg}
	if r.u8() != 1 || r.bad {
		return nil, "handshake-type"
	}
	l := r.u24()
	if r.bad || l != r.n() {
		return nil, "handshake-length"
	}
	ch := &wireCH{}
	ch.Vers = uint16(r.u16())
	ch.Random = r.take(32)
	if r.bad {
		return nil, "truncated"
	}
	sid := r.vec8()
	if sid.bad {
		return nil, "session-id-length"
	}
	if sid.n() > 32 {
		return nil, "session-id-too-long"
	}
	ch.Sid = sid.b
	cs := r.vec16()
	if cs.bad || cs.n() == 0 || cs.n()%2 != 0 {
		return nil, "cipher-suites-length"
	}
	for cs.n() > 0 {
		ch.Suites = append(ch.Suites, uint16(cs.u16()))
	}
	cm := r.vec8()
	if cm.bad || cm.n() == 0 {
		return nil, "compression-methods-length"
	}
	ch.Comp = cm.b
	if r.n() == 0 {
		return ch, ""
	}
	ch.HasExts = true
	eb := r.vec16()
	if eb.bad || r.n() != 0 {
		return nil, "extensions-length"
	}
	seen := map[uint16]bool{}
	for eb.n() > 0 {
		id := uint16(eb.u16())
		body := eb.vec16()
		if eb.bad || body.bad {
			return nil, fmt.Sprintf("extension-length/%d", id)
		}
		if seen[id] {
			return nil, fmt.Sprintf("duplicate-extension/%d", id)
		}
		seen[id] = true
		ch.Exts = append(ch.Exts, wireExt{id, body.b})
	}
	for i, e := range ch.Exts {
		if e.ID == 41 && i != len(ch.Exts)-1 {
			return nil, "psk-not-last"
		}
		if !bodyOK(e.ID, e.Body) {
			return nil, fmt.Sprintf("body/%d", e.ID)
		}
	}
	return ch, ""
}

func allConsumed(r *sr) bool { return !r.bad && r.n() == 0 }

// u16 list with a 16-bit (wide) or 8-bit prefix, at least one element
func u16List(b []byte, wide bool) bool {
	r := &sr{b: b}
	var v *sr
	if wide {
		v = r.vec16()
	} else {
		v = r.vec8()
	}
	return allConsumed(r) && !v.bad && v.n() >= 2 && v.n()%2 == 0
}

func nameList(b []byte) bool {
	r := &sr{b: b}
	v := r.vec16()
	if !allConsumed(r) || v.bad || v.n() == 0 {
		return false
	}
	for v.n() > 0 {
		p := v.vec8()
		if v.bad || p.bad || p.n() == 0 {
			return false
		}
	}
	return true
}

func varint(r *sr) (uint64, bool) {
	f := r.u8()
	if r.bad {
		return 0, false
	}
	n := 1 << (f >> 6)
	v := uint64(f & 0x3f)
	for i := 1; i < n; i++ {
		v = v<<8 | uint64(r.u8())
	}
	return v, !r.bad
}

func bodyOK(id uint16, b []byte) bool {
	r := &sr{b: b}
	switch id {
	case 0: // server_name
		v := r.vec16()
		if !allConsumed(r) || v.bad || v.n() == 0 {
			return false
		}
		types := map[int]bool{}
		for v.n() > 0 {
			t := v.u8()
			nm := v.vec16()
			if v.bad || nm.bad || nm.n() == 0 || types[t] {
				return false
			}
			types[t] = true
		}
		return true
	case 5: // status_request
		if r.u8() != 1 {
			return false
		}
		r.vec16()
		r.vec16()
		return allConsumed(r)
	case 10, 13, 50, 34:
		return u16List(b, true)
	case 27, 43:
		return u16List(b, false)
	case 11, 45:
		v := r.vec8()
		return allConsumed(r) && !v.bad && v.n() > 0
	case 16, 17513, 17613:
		return nameList(b)
	case 17:
		v := r.vec16()
		if !allConsumed(r) || v.bad || v.n() == 0 {
			return false
		}
		for v.n() > 0 {
			v.u8()
			q := v.vec16()
			if v.bad || q.bad {
				return false
			}
		}
		return true
	case 18, 23, 13172, 30031, 30032:
		return len(b) == 0
	case 21:
		for _, x := range b {
			if x != 0 {
				return false
			}
		}
		return true
	case 24:
		r.u8()
		r.u8()
		r.vec8()
		return allConsumed(r)
	case 28:
		return len(b) == 2
	case 41:
		ids := r.vec16()
		bs := r.vec16()
		if !allConsumed(r) || ids.bad || bs.bad {
			return false
		}
		nid, nb := 0, 0
		for ids.n() > 0 {
			l := ids.vec16()
			ids.take(4)
			if ids.bad || l.bad || l.n() == 0 {
				return false
			}
			nid++
		}
		for bs.n() > 0 {
			l := bs.vec8()
			if bs.bad || l.bad || l.n() < 32 {
				return false
			}
			nb++
		}
		return nid > 0 && nid == nb
	case 44:
		v := r.vec16()
		return allConsumed(r) && !v.bad && v.n() > 0
	case 51:
		v := r.vec16()
		if !allConsumed(r) || v.bad {
			return false
		}
		for v.n() > 0 {
			v.u16()
			k := v.vec16()
			if v.bad || k.bad || k.n() == 0 {
				return false
			}
		}
		return true
	case 57:
		for r.n() > 0 {
			if _, ok := varint(r); !ok {
				return false
			}
			l, ok := varint(r)
			if !ok || l > uint64(r.n()) {
				return false
			}
			r.take(int(l))
		}
		return !r.bad
	case 65037:
		switch r.u8() {
		case 1:
			return allConsumed(r)
		case 0:
			r.u16()
			r.u16()
			r.u8()
			r.vec16()
			p := r.vec16()
			return allConsumed(r) && !p.bad && p.n() > 0
		}
		return false
	case 65281:
		r.vec8()
		return allConsumed(r)
	}
	return true
}

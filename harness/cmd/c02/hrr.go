package main

import (
	"fmt"
	"math/rand"
	"net"
	"strings"
	"time"

	tls "github.com/refraction-networking/utls"
	"verif/harness/hs"
	"verif/harness/vh"
)

// runHRR: C02 quantifies over every ClientHello utls sends, so the SECOND ClientHello — the one
// re-marshalled after a HelloRetryRequest (key share replaced, the server's cookie echoed in a cookie
// extension inserted at a random position) — goes through both oracles as well.  Loopback TCP against
// the scripted server of /repo/verif_server.go (HRR with a cookie, and a selected group when the
// hello lists one without a share).  The insertion index comes from crypto/rand, so specs whose last
// extension is pre_shared_key (where the position matters most) are tried many times.
type hrrSpec struct {
	name     string
	attempts int
	id       tls.ClientHelloID
	mk       func() *tls.ClientHelloSpec // HelloCustom when non-nil
}

func pskTail(kind int) tls.TLSExtension {
	switch kind {
	case 0:
		return &tls.FakePreSharedKeyExtension{
			Identities: []tls.PskIdentity{{Label: []byte("resumption-identity-0123456789"), ObfuscatedTicketAge: 77777}},
			Binders:    [][]byte{make([]byte, 32)}}
	case 1:
		return &tls.FakePreSharedKeyExtension{
			Identities: []tls.PskIdentity{{Label: []byte("a"), ObfuscatedTicketAge: 1}, {Label: []byte("second identity"), ObfuscatedTicketAge: 2}},
			Binders:    [][]byte{make([]byte, 32), make([]byte, 48)}}
	}
	return &tls.UtlsPreSharedKeyExtension{OmitEmptyPsk: true}
}

func tls13Spec(extra []tls.TLSExtension, tail tls.TLSExtension) *tls.ClientHelloSpec {
	exts := []tls.TLSExtension{
		&tls.SNIExtension{},
		&tls.SupportedVersionsExtension{Versions: []uint16{tls.VersionTLS13, tls.VersionTLS12}},
		&tls.SupportedCurvesExtension{Curves: []tls.CurveID{tls.X25519, tls.CurveP256}},
		&tls.SignatureAlgorithmsExtension{SupportedSignatureAlgorithms: []tls.SignatureScheme{tls.ECDSAWithP256AndSHA256, tls.PSSWithSHA256, tls.PKCS1WithSHA256}},
		&tls.KeyShareExtension{KeyShares: []tls.KeyShare{{Group: tls.X25519}}},
		&tls.PSKKeyExchangeModesExtension{Modes: []uint8{tls.PskModeDHE}},
	}
	exts = append(exts, extra...)
	if tail != nil {
		exts = append(exts, tail)
	}
	return &tls.ClientHelloSpec{TLSVersMin: tls.VersionTLS12, TLSVersMax: tls.VersionTLS13,
		CipherSuites:       []uint16{tls.TLS_AES_128_GCM_SHA256, tls.TLS_CHACHA20_POLY1305_SHA256, tls.TLS_ECDHE_RSA_WITH_AES_128_GCM_SHA256},
		CompressionMethods: []byte{0}, Extensions: exts}
}

var hrrPKI = hs.SharedPKI()

// hrrOnce performs one handshake through a HelloRetryRequest and returns the ClientHello messages written.
func hrrOnce(id tls.ClientHelloID, spec *tls.ClientHelloSpec, seed int64, cookie []byte) (hellos [][]byte, perr any) {
	ln, err := net.Listen("tcp", "127.0.0.1:0")
	if err != nil {
		return nil, nil
	}
	defer ln.Close()
	script := &tls.VerifServerScript{HRRCookie: cookie}
	script.OnClientHello = func(raw []byte) {
		w, err := hs.ParseClientHello(raw)
		if err != nil {
			return
		}
		for _, g := range []tls.CurveID{tls.X25519, tls.CurveP256, tls.CurveP384} {
			if hs.ContainsU16(w.SupportedGroups, uint16(g)) && !hs.ContainsU16(w.KeyShareGroups, uint16(g)) {
				script.HRRGroup = g
				return
			}
		}
	}
	done := make(chan struct{})
	go func() {
		defer close(done)
		conn, err := ln.Accept()
		if err != nil {
			return
		}
		defer conn.Close()
		conn.SetDeadline(time.Now().Add(3 * time.Second))
		sc := tls.VerifScriptedServer(conn, hrrPKI.ServerConfig(), script)
		if sc.Handshake() == nil {
			sc.Close()
		}
	}()
	raw, err := net.DialTimeout("tcp", ln.Addr().String(), 3*time.Second)
	if err != nil {
		return nil, nil
	}
	rc := &hs.RecConn{Conn: raw}
	rc.SetDeadline(time.Now().Add(3 * time.Second))
	cfg := &tls.Config{ServerName: hs.ServerName, InsecureSkipVerify: true, OmitEmptyPsk: true,
		Rand: seedReader{rand.New(rand.NewSource(seed))}}
	p, val := vh.Recover(func() {
		uc := tls.UClient(rc, cfg, id)
		if spec != nil {
			if uc.ApplyPreset(spec) != nil {
				return
			}
		}
		uc.Handshake()
		uc.Close()
	})
	rc.Close()
	<-done
	if p {
		perr = val
	}
	return hs.ClientHellosFromStream(rc.Written()), perr
}

func typeOrder(ch *wireCH) string {
	var sb strings.Builder
	for _, e := range ch.Exts {
		fmt.Fprintf(&sb, "%d,", e.ID)
	}
	return sb.String()
}

func runHRR(c *vh.Ctx, raws map[string][]byte) {
	many := 64
	if c.Tier != "quick" {
		many = 400
	}
	specs := []hrrSpec{
		{"custom-fakepsk-last", many, tls.HelloCustom, func() *tls.ClientHelloSpec { return tls13Spec(nil, pskTail(0)) }},
		{"custom-fakepsk2-last-long", many, tls.HelloCustom, func() *tls.ClientHelloSpec {
			return tls13Spec([]tls.TLSExtension{&tls.ExtendedMasterSecretExtension{}, &tls.SCTExtension{}, &tls.StatusRequestExtension{},
				&tls.ALPNExtension{AlpnProtocols: []string{"h2", "http/1.1"}}, &tls.UtlsPaddingExtension{GetPaddingLen: tls.BoringPaddingStyle}}, pskTail(1))
		}},
		{"custom-utlspsk-last", many / 2, tls.HelloCustom, func() *tls.ClientHelloSpec { return tls13Spec(nil, pskTail(2)) }},
		{"custom-no-psk", many / 4, tls.HelloCustom, func() *tls.ClientHelloSpec {
			return tls13Spec([]tls.TLSExtension{&tls.ExtendedMasterSecretExtension{}}, nil)
		}},
		{"custom-own-cookie", 4, tls.HelloCustom, func() *tls.ClientHelloSpec {
			return tls13Spec([]tls.TLSExtension{&tls.CookieExtension{Cookie: []byte("stale")}}, pskTail(0))
		}},
	}
	// a spec fingerprinted from a resuming hello (pre_shared_key captured as FakePreSharedKeyExtension)
	if first, _ := hrrOnce(tls.HelloCustom, tls13Spec(nil, pskTail(0)), c.Seed, []byte("x")); len(first) > 0 {
		f := &tls.Fingerprinter{}
		if sp, err := f.FingerprintClientHello(record(first[0])); err == nil {
			specs = append(specs, hrrSpec{"fingerprinted-resuming-hello", many, tls.HelloCustom, func() *tls.ClientHelloSpec {
				sp2, err := f.FingerprintClientHello(record(first[0]))
				if err != nil {
					return sp
				}
				return sp2
			}})
		}
	}
	// every predefined fingerprint once (TLS 1.2-only ones never see a HelloRetryRequest), the PSK ones more often
	for _, p := range hs.Parrots() {
		n := 1
		if strings.Contains(p.Name, "PSK") {
			n = 12
		}
		specs = append(specs, hrrSpec{"parrot-" + p.Name, n, p.ID, nil})
	}
	for si, s := range specs {
		seen := map[string]bool{}
		for a := 0; a < s.attempts; a++ {
			var spec *tls.ClientHelloSpec
			if s.mk != nil {
				spec = s.mk()
			}
			cookie := []byte(fmt.Sprintf("hrr-cookie-%d", a%7))
			hellos, perr := hrrOnce(s.id, spec, c.Seed+int64(si*1000+a), cookie)
			key := "hrr/" + s.name
			if perr != nil {
				c.Fail("panic/"+panicSite(perr)+"/"+key, "Handshake panicked while answering a HelloRetryRequest", obsInput{Key: key, Desc: "HelloRetryRequest with cookie"}, fmt.Sprint(perr), "ClientHello or error")
				continue
			}
			if len(hellos) < 2 {
				c.Count("hrr-no-second-hello")
				continue
			}
			second := hellos[1]
			ch, what := strictWalk(second)
			desc := fmt.Sprintf("second ClientHello of %s after a HelloRetryRequest carrying a %d-byte cookie", s.name, len(cookie))
			if what != "" {
				c.Count("hello/hrr-second")
				c.Fail("malformed/"+what+"/"+key, "the ClientHello sent in answer to a HelloRetryRequest is not a valid ClientHello: "+what,
					obsInput{key, desc, clip(second)}, what, "valid TLS ClientHello")
				if !seen["bad:"+what] { // also show it to the Coq oracle, once per kind
					seen["bad:"+what] = true
					c.OracleCase("valid/hrr-second", "(CValid "+words(second)+")", "strict/"+key,
						"the strict ClientHello grammar rejects the ClientHello sent in answer to a HelloRetryRequest", obsInput{key, desc, clip(second)}, true)
				}
				continue
			}
			// one Coq oracle case per distinct extension order (i.e. per cookie position)
			if o := typeOrder(ch); !seen[o] {
				seen[o] = true
				pos := -1
				for i, e := range ch.Exts {
					if e.ID == 44 {
						pos = i
					}
				}
				observe(c, "hrr-second", fmt.Sprintf("%s/cookie-at-%d-of-%d", key, pos, len(ch.Exts)), desc, second, true)
			} else {
				c.Count("hello/hrr-second")
			}
		}
	}
}

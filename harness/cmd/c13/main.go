// C13 runner: every parrot, custom specs (version lists with holes, no supported_versions with a raised
// minimum, TLSVersMax below the list) and caller-side Config variations (pre-set bounds, a *Config reused
// after another parrot) against scripted servers of every version range: honest servers with
// MaxVersion 1.0..1.3, legacy servers that negotiate from legacy_version only (ignoring
// supported_versions), servers that force a version, raw version-field overwrites, with the RFC 8446
// downgrade sentinel set by the library's rule / omitted / forced. Emits (a) one instance case per
// parrot (spec TLSVersMin/TLSVersMax, the supported_versions list, what reached Config and the wire),
// (b) decision cases compared with Model/Negotiate.v, (c) the property's own oracle on the Go side,
// (d) two-connection histories over a shared ClientSessionCache (a TLS 1.2 session obtained first, then a
// TLS 1.2 answer with / without the sentinel, resumed or not) compared with Model/NegotiateSess.v.
package main

import (
	"fmt"
	"net"
	"os"
	"strings"
	"sync"

	tls "github.com/refraction-networking/utls"
	"verif/harness/hs"
	"verif/harness/vh"
)

func main() { vh.Main(map[string]vh.Suite{"C13": {Corr: "Corr.C13Corr", Run: run}}) }

var alpnPrefs = []string{"h2", "http/1.1"}

type scenario struct {
	name    string
	maxVers uint16 // server Config.MaxVersion
	low     bool   // the server acts below TLS 1.2: put the RSA leaf first (most parrots offer only RSA CBC-SHA suites there)
	script  func(w *hs.WireHello, s *tls.VerifServerScript, rng func(int) int) bool
}

func u16p(v uint16) *uint16 { return &v }

func scenarios() []scenario {
	var sc []scenario
	vs := []uint16{tls.VersionTLS10, tls.VersionTLS11, tls.VersionTLS12, tls.VersionTLS13}
	vname := map[uint16]string{tls.VersionTLS10: "1.0", tls.VersionTLS11: "1.1", tls.VersionTLS12: "1.2", tls.VersionTLS13: "1.3"}
	for _, v := range vs {
		v := v
		// honest Go server limited to v (negotiates from supported_versions; sentinel per the library's rule)
		low := v < tls.VersionTLS12
		sc = append(sc, scenario{"honest-max" + vname[v], v, low, func(*hs.WireHello, *tls.VerifServerScript, func(int) int) bool { return true }})
		if v <= tls.VersionTLS12 {
			// pre-1.3 server: looks at legacy_version only
			sc = append(sc, scenario{"legacy-max" + vname[v], v, low, func(_ *hs.WireHello, s *tls.VerifServerScript, _ func(int) int) bool {
				s.LegacyVersionOnly = true
				return true
			}})
			// a 1.3-capable server (or a MitM) forcing the lower version, sentinel: library rule / omitted / forced
			for _, canary := range []string{"", "none", "tls12", "tls11"} {
				canary := canary
				n := "force" + vname[v] + "-canary-" + canary
				if canary == "" {
					n = "force" + vname[v] + "-canary-rule"
				}
				sc = append(sc, scenario{n, tls.VersionTLS13, low, func(_ *hs.WireHello, s *tls.VerifServerScript, _ func(int) int) bool {
					s.ForceVersion = v
					s.Canary = canary
					return true
				}})
			}
		}
	}
	// forced TLS 1.3 whatever was advertised (missing client material fabricated by the server)
	sc = append(sc, scenario{"force1.3", tls.VersionTLS13, false, func(_ *hs.WireHello, s *tls.VerifServerScript, _ func(int) int) bool {
		s.ForceVersion = tls.VersionTLS13
		return true
	}})
	// TLS 1.3 selected through the legacy version field, no supported_versions in the ServerHello
	sc = append(sc, scenario{"tls13-in-legacy-field", tls.VersionTLS13, false, func(_ *hs.WireHello, s *tls.VerifServerScript, _ func(int) int) bool {
		s.ForceVersion = tls.VersionTLS13
		s.HelloLegacyVersion = u16p(tls.VersionTLS13)
		s.HelloSupportedVersion = u16p(0)
		return true
	}})
	// supported_versions in the ServerHello naming something never advertised
	sc = append(sc, scenario{"sv-tls14", tls.VersionTLS13, false, func(_ *hs.WireHello, s *tls.VerifServerScript, _ func(int) int) bool {
		s.ForceVersion = tls.VersionTLS13
		s.HelloSupportedVersion = u16p(0x0305)
		return true
	}})
	sc = append(sc, scenario{"sv-grease-of-hello", tls.VersionTLS13, false, func(w *hs.WireHello, s *tls.VerifServerScript, _ func(int) int) bool {
		for _, v := range w.SupportedVersions {
			if hs.IsGREASE(v) {
				s.ForceVersion = tls.VersionTLS13
				s.HelloSupportedVersion = u16p(v)
				return true
			}
		}
		return false
	}})
	// a lower version named through the supported_versions extension of the ServerHello
	for _, v := range []uint16{tls.VersionTLS10, tls.VersionTLS11, tls.VersionTLS12} {
		v := v
		sc = append(sc, scenario{"sv-names-" + vname[v], tls.VersionTLS13, v < tls.VersionTLS12, func(_ *hs.WireHello, s *tls.VerifServerScript, _ func(int) int) bool {
			s.ForceVersion = v
			s.HelloSupportedVersion = u16p(v)
			s.Canary = "none"
			return true
		}})
	}
	return sc
}

// advertised: the versions the wire hello advertises (property text): the supported_versions list when
// present (GREASE entries are not versions), else [spec minimum .. legacy_version].
func advertised(w *hs.WireHello, specmin uint16) []uint16 {
	var out []uint16
	if w.HasSupportedVers {
		for _, v := range w.SupportedVersions {
			if !hs.IsGREASE(v) {
				out = append(out, v)
			}
		}
		return out
	}
	for _, v := range []uint16{tls.VersionTLS13, tls.VersionTLS12, tls.VersionTLS11, tls.VersionTLS10} {
		if v >= specmin && v <= w.LegacyVersion {
			out = append(out, v)
		}
	}
	return out
}

// client: who connects. mkSpec != nil = a custom spec (fresh per connection: ApplyPreset mutates it);
// cfgMode = how the caller's *Config looks before UClient gets it.
type client struct {
	name    string
	id      tls.ClientHelloID
	mkSpec  func() *tls.ClientHelloSpec
	cfgMode string // "", "wide" (Min 1.0 / Max 1.3 pre-set), "narrow" (Min = Max = 1.2 pre-set), "reused" (same *Config used by a Firefox_102 UConn before)
	// afterBuild (optional): what the caller does to the UConn after BuildHandshakeState (hs.Run re-builds afterwards)
	afterBuild func(*tls.UConn) error
	// widen (optional): what happens to the caller's *Config (UClient does not clone it) BETWEEN the explicit BuildHandshakeState
	// and the handshake: "sibling-<parrot>" = another UConn made from the same Config builds that parrot's hello (SetTLSVers writes
	// the parrot's TLSVersMin/Max into the Config), "min10" = the caller sets MinVersion to TLS 1.0
	widen string
}

func (cl client) key() string {
	k := cl.name
	if cl.cfgMode != "" {
		k += "+cfg-" + cl.cfgMode
	}
	if cl.widen != "" {
		k += "+widen-" + cl.widen
	}
	return k
}

// hooksFor: the AfterBuild callback of one connection (the Config is the one handed to UClient).
func (cl client) hooksFor(cfg *tls.Config) func(*tls.UConn) error {
	if cl.widen == "" {
		return cl.afterBuild
	}
	return func(uc *tls.UConn) error {
		if cl.afterBuild != nil {
			if err := cl.afterBuild(uc); err != nil {
				return err
			}
		}
		if cl.widen == "min10" {
			cfg.MinVersion = tls.VersionTLS10
			return nil
		}
		pr, ok := hs.ParrotByName(strings.TrimPrefix(cl.widen, "sibling-"))
		if !ok {
			return fmt.Errorf("unknown sibling %q", cl.widen)
		}
		a, b := net.Pipe()
		defer a.Close()
		defer b.Close()
		return tls.UClient(a, cfg, pr.ID).BuildHandshakeState()
	}
}

type outcome struct {
	cl      client
	sc      scenario
	applies bool
	res     *hs.Result
	script  *tls.VerifServerScript
	specmin uint16
}

func withVersions(base tls.ClientHelloID, versions []uint16, min, max uint16, dropExt bool) func() *tls.ClientHelloSpec {
	return func() *tls.ClientHelloSpec {
		sp, err := tls.UTLSIdToSpec(base)
		if err != nil {
			return nil
		}
		sp.TLSVersMin, sp.TLSVersMax = min, max
		var exts []tls.TLSExtension
		for _, e := range sp.Extensions {
			if sv, ok := e.(*tls.SupportedVersionsExtension); ok {
				if dropExt {
					continue
				}
				if versions != nil {
					sv.Versions = append([]uint16(nil), versions...)
				}
			}
			exts = append(exts, e)
		}
		sp.Extensions = exts
		return &sp
	}
}

// customClients: specs the predefined parrots do not cover.
func customClients() []client {
	V10, V11, V12, V13 := uint16(tls.VersionTLS10), uint16(tls.VersionTLS11), uint16(tls.VersionTLS12), uint16(tls.VersionTLS13)
	return []client{
		// TLSVersMax below what the extension lists (witness of C13_canary_wire_before_fix_refuted)
		{name: "custom-max-below-offered", id: tls.HelloCustom, mkSpec: withVersions(tls.HelloFirefox_102, nil, V12, V12, false)},
		// supported_versions lists with a hole, bounds derived from the list (TLSVersMin = TLSVersMax = 0)
		{name: "custom-sv-12-10", id: tls.HelloCustom, mkSpec: withVersions(tls.HelloFirefox_102, []uint16{V12, V10}, 0, 0, false)},
		{name: "custom-sv-grease-13-11", id: tls.HelloCustom, mkSpec: withVersions(tls.HelloFirefox_102, []uint16{tls.GREASE_PLACEHOLDER, V13, V11}, 0, 0, false)},
		{name: "custom-sv-13-10", id: tls.HelloCustom, mkSpec: withVersions(tls.HelloFirefox_102, []uint16{V13, V10}, V10, V13, false)},
		// no supported_versions extension, minimum raised above the library default
		{name: "custom-nosv-min12", id: tls.HelloCustom, mkSpec: withVersions(tls.HelloChrome_58, nil, V12, V12, false)},
		{name: "custom-nosv-min11", id: tls.HelloCustom, mkSpec: withVersions(tls.HelloIOS_11_1, nil, V11, V12, false)},
		// a TLS 1.3 parrot stripped of the extension and capped at 1.2
		{name: "custom-nosv-stripped", id: tls.HelloCustom, mkSpec: withVersions(tls.HelloFirefox_105, nil, V12, V12, true)},
		// ... stripped of the extension but TLSVersMax left at 1.3: legacy_version 1.2 on the wire, nothing advertises 1.3
		{name: "custom-nosv-max13", id: tls.HelloCustom, mkSpec: withVersions(tls.HelloFirefox_105, nil, V12, V13, true)},
		{name: "custom-nosv-min10-max13", id: tls.HelloCustom, mkSpec: withVersions(tls.HelloFirefox_105, nil, V10, V13, true)},
		// a built Firefox_105 / Chrome_120 UConn whose SupportedVersionsExtension the caller removes from uc.Extensions
		{name: "edit:Firefox_105:drop-sv", id: tls.HelloFirefox_105, afterBuild: dropSupportedVersions},
		{name: "edit:Chrome_120:drop-sv", id: tls.HelloChrome_120, afterBuild: dropSupportedVersions},
	}
}

func dropSupportedVersions(uc *tls.UConn) error {
	var exts []tls.TLSExtension
	for _, e := range uc.Extensions {
		if _, ok := e.(*tls.SupportedVersionsExtension); ok {
			continue
		}
		exts = append(exts, e)
	}
	uc.Extensions = exts
	return nil
}

// specMinimum: the spec's minimum version as the spec itself states it (NOT what reached Config):
// TLSVersMin if set; with both bounds 0 the lowest non-GREASE entry of its supported_versions extension,
// or TLS 1.0 without one (u_conn.go:696-735). nil spec (HelloGolang): the Config minimum, 1.2 if unset.
func specMinimum(sp *tls.ClientHelloSpec, view tls.VerifClientView) uint16 {
	if sp == nil {
		if view.ConfigMinVersion != 0 {
			return view.ConfigMinVersion
		}
		return tls.VersionTLS12
	}
	if sp.TLSVersMin != 0 || sp.TLSVersMax != 0 {
		return sp.TLSVersMin
	}
	min := uint16(0)
	found := false
	for _, e := range sp.Extensions {
		if sv, ok := e.(*tls.SupportedVersionsExtension); ok {
			found = true
			for _, v := range sv.Versions {
				if !hs.IsGREASE(v) && (min == 0 || v < min) {
					min = v
				}
			}
		}
	}
	if !found {
		return tls.VersionTLS10
	}
	return min
}

// clientConfig: the *Config the caller hands to UClient, per cfgMode.
func clientConfig(p *hs.PKI, mode string) *tls.Config {
	cfg := p.ClientConfig()
	switch mode {
	case "wide":
		cfg.MinVersion, cfg.MaxVersion = tls.VersionTLS10, tls.VersionTLS13
	case "narrow":
		cfg.MinVersion, cfg.MaxVersion = tls.VersionTLS12, tls.VersionTLS12
	case "reused":
		// the same *Config served a Firefox_102 connection before (SetTLSVers writes the spec's bounds into it)
		a, b := net.Pipe()
		u := tls.UClient(a, cfg, tls.HelloFirefox_102)
		u.BuildHandshakeState()
		a.Close()
		b.Close()
	}
	return cfg
}

func runOne(p *hs.PKI, cl client, sc scenario, seed int64) *outcome {
	o := &outcome{cl: cl, sc: sc}
	rng := vh.NewRand(seed)
	script := &tls.VerifServerScript{}
	script.OnClientHello = func(raw []byte) {
		w, err := hs.ParseClientHello(raw)
		if err != nil {
			return
		}
		o.applies = sc.script(w, script, rng.Intn)
	}
	scfg := p.ServerConfig(alpnPrefs...)
	scfg.MaxVersion = sc.maxVers
	if sc.low {
		scfg.Certificates = []tls.Certificate{p.RSA, p.ECDSA}
	}
	o.script = script
	var spec *tls.ClientHelloSpec
	if cl.mkSpec != nil {
		spec = cl.mkSpec()
	}
	ccfg := clientConfig(p, cl.cfgMode)
	o.res = hs.Run(hs.Opts{ID: cl.id, Spec: spec, ClientCfg: ccfg, ServerCfg: scfg, Script: script, AfterBuild: cl.hooksFor(ccfg)})
	if cl.mkSpec != nil {
		o.specmin = specMinimum(cl.mkSpec(), o.res.View) // a pristine copy: ApplyPreset rewrote GREASE in the used one
	} else {
		o.specmin = specMinimum(o.res.Spec, o.res.View)
	}
	return o
}

func sentinelOf(r *hs.Result) bool {
	rnd := r.ServerHelloRandom
	if !r.ServerHelloSeen {
		rnd = r.Trace.ServerRandom
	}
	return hs.TailOf(rnd) != 0
}

// ---- histories over a shared session cache ----
type history struct {
	cl      client
	variant string // resume-sentinel, fresh-sentinel, resume-clean, fresh-clean
	r1, r2  *hs.Result
	script2 *tls.VerifServerScript
	specmin uint16
}

func runHistory(p *hs.PKI, cl client, variant string) *history {
	h := &history{cl: cl, variant: variant}
	ccfg := clientConfig(p, cl.cfgMode)
	ccfg.ClientSessionCache = tls.NewLRUClientSessionCache(4)
	var keyA, keyB [32]byte
	copy(keyA[:], "verif-c13-ticket-key-A----------")
	copy(keyB[:], "verif-c13-ticket-key-B----------")
	// connection 1: a TLS 1.2 server that issues a ticket
	s1 := p.ServerConfig(alpnPrefs...)
	s1.MaxVersion = tls.VersionTLS12
	s1.SessionTicketsDisabled = false
	s1.SessionTicketKey = keyA
	mk := func() *tls.ClientHelloSpec {
		if cl.mkSpec != nil {
			return cl.mkSpec()
		}
		return nil
	}
	h.r1 = hs.Run(hs.Opts{ID: cl.id, Spec: mk(), ClientCfg: ccfg, ServerCfg: s1, Script: &tls.VerifServerScript{}, AfterBuild: cl.afterBuild})
	// connection 2: TLS 1.2 again, from a server that could do 1.3 (sentinel by the library's rule) or could not
	s2 := p.ServerConfig(alpnPrefs...)
	s2.SessionTicketsDisabled = false
	s2.SessionTicketKey = keyA
	if strings.HasPrefix(variant, "fresh-") {
		s2.SessionTicketKey = keyB // the ticket cannot be decrypted: full handshake
	}
	h.script2 = &tls.VerifServerScript{}
	if strings.HasSuffix(variant, "-sentinel") {
		s2.MaxVersion = tls.VersionTLS13
		h.script2.ForceVersion = tls.VersionTLS12
	} else {
		s2.MaxVersion = tls.VersionTLS12
	}
	h.r2 = hs.Run(hs.Opts{ID: cl.id, Spec: mk(), ClientCfg: ccfg, ServerCfg: s2, Script: h.script2, AfterBuild: cl.afterBuild})
	if cl.mkSpec != nil {
		h.specmin = specMinimum(cl.mkSpec(), h.r2.View)
	} else {
		h.specmin = specMinimum(h.r2.Spec, h.r2.View)
	}
	return h
}

func run(c *vh.Ctx) {
	p := hs.SharedPKI()
	scs := scenarios()
	type job struct {
		cl   client
		sc   scenario
		seed int64
	}
	var jobs []job
	quick := c.Tier == "quick"
	for pi, pr := range hs.Parrots() {
		for si, sc := range scs {
			// quick tier: the legacy servers, honest 1.2/1.3 servers and the forced 1.2 sentinel always; the rest rotates with the seed
			always := strings.HasPrefix(sc.name, "legacy-") || sc.name == "honest-max1.2" || sc.name == "honest-max1.3" || sc.name == "force1.2-canary-tls12"
			if quick && !always && (pi+si+int(c.Seed))%4 != 0 {
				continue
			}
			jobs = append(jobs, job{client{name: pr.Name, id: pr.ID}, sc, c.Seed*1000003 + int64(pi)*1009 + int64(si)})
		}
	}
	// HelloGolang through UClient (hello built by crypto/tls), and clients whose shared *Config changes between the explicit
	// BuildHandshakeState and the handshake
	golang := client{name: "Golang", id: tls.HelloGolang}
	widened := []client{golang}
	for _, wd := range []string{"sibling-Chrome_58", "sibling-Firefox_102", "min10"} {
		g := golang
		g.widen = wd
		widened = append(widened, g)
	}
	for _, n := range []string{"Chrome_120", "Firefox_105", "Chrome_58", "Firefox_102"} {
		if pr, ok := hs.ParrotByName(n); ok {
			for _, wd := range []string{"sibling-Firefox_102", "min10"} {
				widened = append(widened, client{name: pr.Name, id: pr.ID, widen: wd})
			}
		}
	}
	for wi, cl := range widened {
		for si, sc := range scs {
			old := strings.HasPrefix(sc.name, "legacy-") || strings.HasPrefix(sc.name, "honest-") || strings.HasPrefix(sc.name, "sv-names-") ||
				sc.name == "force1.0-canary-none" || sc.name == "force1.1-canary-none" || sc.name == "force1.2-canary-tls12"
			if quick && cl.id != tls.HelloGolang && !old {
				continue
			}
			jobs = append(jobs, job{cl, sc, c.Seed*1000003 + 333331 + int64(wi)*211 + int64(si)})
		}
	}
	// corpus: the custom specs against every scenario
	customs := customClients()
	for ci, cl := range customs {
		for si, sc := range scs {
			jobs = append(jobs, job{cl, sc, c.Seed*1000003 + 999983 + int64(ci)*977 + int64(si)})
		}
	}
	// caller-side Config variations: pre-set bounds wider / narrower than the spec, a *Config reused after Firefox_102;
	// against the servers that ignore supported_versions or are limited to old versions
	var varied []client
	for _, cl := range customs {
		if strings.HasPrefix(cl.name, "custom-nosv") || cl.name == "custom-sv-12-10" || cl.name == "edit:Firefox_105:drop-sv" {
			varied = append(varied, cl)
		}
	}
	for _, n := range []string{"Chrome_58", "Firefox_55", "Android_11_OkHttp", "IOS_12_1", "Firefox_105", "Chrome_120", "Firefox_102"} {
		if pr, ok := hs.ParrotByName(n); ok {
			varied = append(varied, client{name: pr.Name, id: pr.ID})
		}
	}
	if !quick {
		varied = nil
		varied = append(varied, customs...)
		for _, pr := range hs.Parrots() {
			varied = append(varied, client{name: pr.Name, id: pr.ID})
		}
	}
	for vi, cl := range varied {
		for mi, mode := range []string{"wide", "narrow", "reused"} {
			if quick && mode == "narrow" && cl.mkSpec == nil {
				continue // quick: the narrow pre-set only for the custom specs
			}
			for si, sc := range scs {
				old := strings.HasPrefix(sc.name, "legacy-") || strings.HasPrefix(sc.name, "honest-") || sc.name == "force1.0-canary-none" || sc.name == "force1.1-canary-none"
				if !old {
					continue
				}
				v := cl
				v.cfgMode = mode
				jobs = append(jobs, job{v, sc, c.Seed*1000003 + 777781 + int64(vi)*131 + int64(mi)*17 + int64(si)})
			}
		}
	}
	out := make([]*outcome, len(jobs))
	var wg sync.WaitGroup
	sem := make(chan struct{}, 16)
	for i, j := range jobs {
		wg.Add(1)
		sem <- struct{}{}
		go func(i int, j job) {
			defer wg.Done()
			defer func() { <-sem }()
			out[i] = runOne(p, j.cl, j.sc, j.seed)
		}(i, j)
	}
	// histories
	var hcl []client
	hnames := []string{"Chrome_102", "Firefox_105", "Chrome_133", "Firefox_102", "Chrome_58", "Safari_16_0"}
	if !quick {
		hnames = nil
		for _, pr := range hs.Parrots() {
			hnames = append(hnames, pr.Name)
		}
	}
	for _, n := range hnames {
		if pr, ok := hs.ParrotByName(n); ok {
			hcl = append(hcl, client{name: pr.Name, id: pr.ID})
		}
	}
	hcl = append(hcl, client{name: "Golang", id: tls.HelloGolang})
	hcl = append(hcl, client{name: "Chrome_102", id: tls.HelloChrome_102, cfgMode: "wide"})
	var hists []*history
	var hmu sync.Mutex
	for _, cl := range hcl {
		for _, variant := range []string{"resume-sentinel", "fresh-sentinel", "resume-clean", "fresh-clean"} {
			wg.Add(1)
			sem <- struct{}{}
			go func(cl client, variant string) {
				defer wg.Done()
				defer func() { <-sem }()
				h := runHistory(p, cl, variant)
				hmu.Lock()
				hists = append(hists, h)
				hmu.Unlock()
			}(cl, variant)
		}
	}
	wg.Wait()

	debug := os.Getenv("C13_DEBUG") != ""
	inst := map[string]bool{}
	var inconsistent []string
	for _, o := range out {
		r := o.res
		name := o.cl.key()
		if r.BuildErr != nil || r.Wire == nil {
			c.Count("build-error")
			if debug {
				fmt.Println("BUILD", name, r.BuildErr)
			}
			continue
		}
		w := r.Wire
		vt, wt := hs.ViewTerm(r), hs.WireTerm(w)
		adv := advertised(w, o.specmin)
		if !inst[name] {
			inst[name] = true
			// instance: what the spec says, what reached Config, what reached the wire
			var specMin, specMax uint16
			if r.Spec != nil {
				specMin, specMax = r.Spec.TLSVersMin, r.Spec.TLSVersMax
			}
			consistent := true
			for _, v := range r.View.ClientVersions {
				if !hs.ContainsU16(adv, v) {
					consistent = false
				}
			}
			if !consistent {
				inconsistent = append(inconsistent, fmt.Sprintf("%s(spec %x..%x, accepts %x, advertises %x)", name, specMin, specMax, r.View.ClientVersions, adv))
			}
			c.Case("instance", fmt.Sprintf("(CInst %s %d %s)", vt, o.specmin, wt), "inst/"+name, !consistent || w.HasSupportedVers,
				map[string]any{"client": name, "spec_min": specMin, "spec_max": specMax, "config_versions": r.View.ClientVersions,
					"hello_supported_versions": r.View.SupportedVersions, "wire_supported_versions": w.SupportedVersions,
					"wire_legacy_version": w.LegacyVersion, "consistent": consistent})
		}
		if !o.applies {
			c.Count("not-applicable")
			continue
		}
		completed := r.ClientErr == nil
		vers := r.ClientState.Version
		sentinel := sentinelOf(r)
		input := map[string]any{"client": name, "config_mode": o.cl.cfgMode, "scenario": o.sc.name, "server_max_version": o.sc.maxVers, "server_acted_at": r.Trace.Version,
			"hello_legacy_version": r.Trace.HelloVers, "hello_supported_version": r.Trace.HelloSV, "sentinel": sentinel, "spec_minimum": o.specmin,
			"config_versions": r.View.ClientVersions, "wire_supported_versions": w.SupportedVersions, "wire_legacy_version": w.LegacyVersion, "advertised": adv}

		// ---- (c) the property's own oracle ----
		if completed && !hs.ContainsU16(adv, vers) {
			c.Fail("version/"+name, fmt.Sprintf("client completed the handshake at version %x which its ClientHello did not advertise", vers),
				input, map[string]any{"version": vers, "app_data": r.AppData}, adv)
		}
		if completed && vers <= tls.VersionTLS12 && sentinel && w.HasSupportedVers && hs.ContainsU16(w.SupportedVersions, tls.VersionTLS13) {
			c.Fail("canary/"+name, fmt.Sprintf("client offered TLS 1.3 and completed at %x although the ServerHello carried the downgrade sentinel", vers),
				input, map[string]any{"version": vers, "random_tail": vh.Hex(r.ServerHelloRandom[24:])}, "abort with illegal_parameter")
		}

		// ---- (b) decision correspondence ----
		fl, ok := hs.FlightTerm(r, o.script, alpnPrefs)
		if !ok || (r.AlertFromServer >= 0 && !completed) {
			c.Count("server-declined")
			if debug {
				fmt.Printf("%-34s %-24s SERVER DECLINED serr=%q cerr=%q\n", name, o.sc.name, errStr(r.ServerErr), errStr(r.ClientErr))
			}
			continue
		}
		kind := o.sc.name
		if i := strings.Index(kind, "-canary"); i > 0 && strings.HasPrefix(kind, "force") {
			kind = "force-low" + kind[i:]
		}
		if o.cl.cfgMode != "" {
			kind = "cfg-" + o.cl.cfgMode
		}
		c.Case(kind, fmt.Sprintf("(CVers %s %d %s %s %s)", vt, o.specmin, wt, fl, hs.ObsTerm(r)), o.sc.name+"/"+name,
			completed || sentinel || !hs.ContainsU16(adv, r.Trace.Version),
			map[string]any{"client": name, "scenario": o.sc.name, "completed": completed, "version": vers, "client_error": errStr(r.ClientErr), "alert": hs.ClientAlert(r)})
		if debug {
			fmt.Printf("%-34s %-24s acted=%x completed=%-5v vers=%x sentinel=%-5v alert=%-3d adv=%x cerr=%q serr=%q\n", name, o.sc.name, r.Trace.Version, completed, vers, sentinel, hs.ClientAlert(r), adv, errStr(r.ClientErr), errStr(r.ServerErr))
		}
	}
	for _, h := range hists {
		emitHistory(c, h, debug)
	}
	c.Extra["specs_with_config_range_outside_advertised"] = inconsistent
	if debug {
		for _, s := range inconsistent {
			fmt.Println("INCONSISTENT", s)
		}
		for _, k := range vh.SortedKeys(c.Dist) {
			fmt.Println(k, c.Dist[k])
		}
	}
}

func emitHistory(c *vh.Ctx, h *history, debug bool) {
	name := h.cl.key()
	r1, r2 := h.r1, h.r2
	if r1.BuildErr != nil || r2.BuildErr != nil || r1.Wire == nil || r2.Wire == nil || r1.ClientErr != nil {
		c.Count("history-setup-failed")
		if debug {
			fmt.Printf("HISTORY %-20s %-16s setup failed: %v %v %v\n", name, h.variant, r1.BuildErr, r1.ClientErr, r2.BuildErr)
		}
		return
	}
	w1, w2 := r1.Wire, r2.Wire
	offered := len(w2.SessionTicket) > 0
	completed := r2.ClientErr == nil
	vers := r2.ClientState.Version
	sentinel := sentinelOf(r2)
	adv := advertised(w2, h.specmin)
	input := map[string]any{"client": name, "history": h.variant, "first_connection": map[string]any{"version": r1.ClientState.Version, "suite": r1.ClientState.CipherSuite},
		"second_hello_offers_ticket": offered, "sentinel": sentinel, "wire_supported_versions": w2.SupportedVersions, "advertised": adv}
	// ---- the property's own oracle, on the second connection ----
	if completed && !hs.ContainsU16(adv, vers) {
		c.Fail("version/"+name, fmt.Sprintf("history %s: client completed at version %x which its ClientHello did not advertise", h.variant, vers), input,
			map[string]any{"version": vers, "resumed": r2.ClientState.DidResume}, adv)
	}
	if completed && vers <= tls.VersionTLS12 && sentinel && w2.HasSupportedVers && hs.ContainsU16(w2.SupportedVersions, tls.VersionTLS13) {
		c.Fail("canary-after-session/"+name, fmt.Sprintf("history %s: client offered TLS 1.3 (and a cached TLS %x session) and completed at %x although the ServerHello carried the downgrade sentinel",
			h.variant, r1.ClientState.Version, vers), input,
			map[string]any{"version": vers, "resumed": r2.ClientState.DidResume, "random_tail": vh.Hex(r2.ServerHelloRandom[24:])}, "abort with illegal_parameter")
	}
	if !r2.ServerHelloSeen || (r2.AlertFromServer >= 0 && !completed) {
		c.Count("server-declined")
		return
	}
	sess := "None"
	if offered {
		sess = fmt.Sprintf("(Some (mkSess %d %d %s))", r1.ClientState.Version, r1.ClientState.CipherSuite, vh.Bool(w1.HasEMS))
	}
	alpn, _ := hs.NegotiatedALPN(alpnPrefs, w2.ALPN)
	fl := hs.Flight12FromSeen(r2, alpn, uint16(r2.Trace.Group))
	c.Case("history-"+h.variant, fmt.Sprintf("(CHist %s %d %s %s %s %s %s %s)", hs.ViewTerm(r2), h.specmin, hs.WireTerm(w2), sess, vh.Bool(w2.HasEMS), fl,
		hs.ObsTerm(r2), vh.Bool(r2.ClientState.DidResume)), "history/"+h.variant+"/"+name, true,
		map[string]any{"client": name, "history": h.variant, "offers_ticket": offered, "completed": completed, "resumed": r2.ClientState.DidResume, "sentinel": sentinel})
	if debug {
		fmt.Printf("HISTORY %-20s %-16s ticket=%-5v completed=%-5v resumed=%-5v vers=%x sentinel=%-5v alert=%-3d cerr=%q serr=%q\n", name, h.variant, offered, completed,
			r2.ClientState.DidResume, vers, sentinel, hs.ClientAlert(r2), errStr(r2.ClientErr), errStr(r2.ServerErr))
	}
}

func errStr(e error) string {
	if e == nil {
		return ""
	}
	return strings.ReplaceAll(e.Error(), "\n", " ")
}

// C13 runner: every parrot against scripted servers of every version range: honest servers with
// MaxVersion 1.0..1.3, legacy servers that negotiate from legacy_version only (ignoring
// supported_versions), servers that force a version, raw version-field overwrites, with the RFC 8446
// downgrade sentinel set by the library's rule / omitted / forced. Emits (a) one instance case per
// parrot (spec TLSVersMin/TLSVersMax, the supported_versions list, what reached Config and the wire),
// (b) decision cases compared with Model/Negotiate.v, (c) the property's own oracle on the Go side.
package main

import (
	"fmt"
	"os"
	"strings"
	"sync"

	tls "github.com/refraction-networking/utls"
	"verif/harness/hs"
	"verif/harness/vh"
)

func main() { vh.Main(map[string]vh.Suite{"C13": {Corr: "Corr.C13Corr", Run: run}}) }

var alpnPrefs = []string{"h2", "http/1.1"}

type scenario struct {
	name    string
	maxVers uint16 // server Config.MaxVersion
	low     bool   // the server acts below TLS 1.2: put the RSA leaf first (most parrots offer only RSA CBC-SHA suites there)
	script  func(w *hs.WireHello, s *tls.VerifServerScript, rng func(int) int) bool
}

func u16p(v uint16) *uint16 { return &v }

func scenarios() []scenario {
	var sc []scenario
	vs := []uint16{tls.VersionTLS10, tls.VersionTLS11, tls.VersionTLS12, tls.VersionTLS13}
	vname := map[uint16]string{tls.VersionTLS10: "1.0", tls.VersionTLS11: "1.1", tls.VersionTLS12: "1.2", tls.VersionTLS13: "1.3"}
	for _, v := range vs {
		v := v
		// honest Go server limited to v (negotiates from supported_versions; sentinel per the library's rule)
		low := v < tls.VersionTLS12
		sc = append(sc, scenario{"honest-max" + vname[v], v, low, func(*hs.WireHello, *tls.VerifServerScript, func(int) int) bool { return true }})
		if v <= tls.VersionTLS12 {
			// pre-1.3 server: looks at legacy_version only
			sc = append(sc, scenario{"legacy-max" + vname[v], v, low, func(_ *hs.WireHello, s *tls.VerifServerScript, _ func(int) int) bool {
				s.LegacyVersionOnly = true
				return true
			}})
			// a 1.3-capable server (or a MitM) forcing the lower version, sentinel: library rule / omitted / forced
			for _, canary := range []string{"", "none", "tls12", "tls11"} {
				canary := canary
				n := "force" + vname[v] + "-canary-" + canary
				if canary == "" {
					n = "force" + vname[v] + "-canary-rule"
				}
				sc = append(sc, scenario{n, tls.VersionTLS13, low, func(_ *hs.WireHello, s *tls.VerifServerScript, _ func(int) int) bool {
					s.ForceVersion = v
					s.Canary = canary
					return true
				}})
			}
		}
	}
	// forced TLS 1.3 whatever was advertised (missing client material fabricated by the server)
	sc = append(sc, scenario{"force1.3", tls.VersionTLS13, false, func(_ *hs.WireHello, s *tls.VerifServerScript, _ func(int) int) bool {
		s.ForceVersion = tls.VersionTLS13
		return true
	}})
	// TLS 1.3 selected through the legacy version field, no supported_versions in the ServerHello
	sc = append(sc, scenario{"tls13-in-legacy-field", tls.VersionTLS13, false, func(_ *hs.WireHello, s *tls.VerifServerScript, _ func(int) int) bool {
		s.ForceVersion = tls.VersionTLS13
		s.HelloLegacyVersion = u16p(tls.VersionTLS13)
		s.HelloSupportedVersion = u16p(0)
		return true
	}})
	// supported_versions in the ServerHello naming something never advertised
	sc = append(sc, scenario{"sv-tls14", tls.VersionTLS13, false, func(_ *hs.WireHello, s *tls.VerifServerScript, _ func(int) int) bool {
		s.ForceVersion = tls.VersionTLS13
		s.HelloSupportedVersion = u16p(0x0305)
		return true
	}})
	sc = append(sc, scenario{"sv-grease-of-hello", tls.VersionTLS13, false, func(w *hs.WireHello, s *tls.VerifServerScript, _ func(int) int) bool {
		for _, v := range w.SupportedVersions {
			if hs.IsGREASE(v) {
				s.ForceVersion = tls.VersionTLS13
				s.HelloSupportedVersion = u16p(v)
				return true
			}
		}
		return false
	}})
	// a lower version named through the supported_versions extension of the ServerHello
	for _, v := range []uint16{tls.VersionTLS10, tls.VersionTLS11, tls.VersionTLS12} {
		v := v
		sc = append(sc, scenario{"sv-names-" + vname[v], tls.VersionTLS13, v < tls.VersionTLS12, func(_ *hs.WireHello, s *tls.VerifServerScript, _ func(int) int) bool {
			s.ForceVersion = v
			s.HelloSupportedVersion = u16p(v)
			s.Canary = "none"
			return true
		}})
	}
	return sc
}

// advertised: the versions the wire hello advertises (property text): the supported_versions list when
// present (GREASE entries are not versions), else [spec minimum .. legacy_version].
func advertised(w *hs.WireHello, specmin uint16) []uint16 {
	var out []uint16
	if w.HasSupportedVers {
		for _, v := range w.SupportedVersions {
			if !hs.IsGREASE(v) {
				out = append(out, v)
			}
		}
		return out
	}
	for _, v := range []uint16{tls.VersionTLS13, tls.VersionTLS12, tls.VersionTLS11, tls.VersionTLS10} {
		if v >= specmin && v <= w.LegacyVersion {
			out = append(out, v)
		}
	}
	return out
}

type outcome struct {
	name    string
	sc      scenario
	applies bool
	res     *hs.Result
	script  *tls.VerifServerScript
	specmin uint16
	custom  bool
}

func runOne(p *hs.PKI, name string, id tls.ClientHelloID, spec *tls.ClientHelloSpec, sc scenario, seed int64) *outcome {
	o := &outcome{name: name, sc: sc, custom: spec != nil}
	rng := vh.NewRand(seed)
	script := &tls.VerifServerScript{}
	script.OnClientHello = func(raw []byte) {
		w, err := hs.ParseClientHello(raw)
		if err != nil {
			return
		}
		o.applies = sc.script(w, script, rng.Intn)
	}
	scfg := p.ServerConfig(alpnPrefs...)
	scfg.MaxVersion = sc.maxVers
	if sc.low {
		scfg.Certificates = []tls.Certificate{p.RSA, p.ECDSA}
	}
	o.script = script
	o.res = hs.Run(hs.Opts{ID: id, Spec: spec, ClientCfg: p.ClientConfig(), ServerCfg: scfg, Script: script})
	// the spec's effective minimum as SetTLSVers wrote it into Config (spec TLSVersMin, or derived)
	o.specmin = o.res.View.ConfigMinVersion
	return o
}

// customSpec: Firefox_102's hello with TLSVersMin/TLSVersMax = 1.2 while its supported_versions extension
// still lists {1.3, 1.2}: the witness of C13_canary_wire_before_fix_refuted.
func customSpec() *tls.ClientHelloSpec {
	sp, err := tls.UTLSIdToSpec(tls.HelloFirefox_102)
	if err != nil {
		return nil
	}
	sp.TLSVersMin = tls.VersionTLS12
	sp.TLSVersMax = tls.VersionTLS12
	return &sp
}

func run(c *vh.Ctx) {
	p := hs.SharedPKI()
	parrots := hs.Parrots()
	scs := scenarios()
	type job struct {
		name string
		id   tls.ClientHelloID
		spec *tls.ClientHelloSpec
		sc   scenario
		seed int64
	}
	var jobs []job
	for pi, pr := range parrots {
		for si, sc := range scs {
			// quick tier: the legacy servers, honest 1.2/1.3 servers and the forced 1.2 sentinel always; the rest rotates with the seed
			always := strings.HasPrefix(sc.name, "legacy-") || sc.name == "honest-max1.2" || sc.name == "honest-max1.3" || sc.name == "force1.2-canary-tls12"
			if c.Tier == "quick" && !always && (pi+si+int(c.Seed))%3 != 0 {
				continue
			}
			jobs = append(jobs, job{pr.Name, pr.ID, nil, sc, c.Seed*1000003 + int64(pi)*1009 + int64(si)})
		}
	}
	// corpus: the custom spec whose TLSVersMax is below what its extension lists, against every scenario
	for si, sc := range scs {
		jobs = append(jobs, job{"custom-max-below-offered", tls.HelloCustom, customSpec(), sc, c.Seed*1000003 + 999983 + int64(si)})
	}
	out := make([]*outcome, len(jobs))
	var wg sync.WaitGroup
	sem := make(chan struct{}, 16)
	for i, j := range jobs {
		wg.Add(1)
		sem <- struct{}{}
		go func(i int, j job) {
			defer wg.Done()
			defer func() { <-sem }()
			out[i] = runOne(p, j.name, j.id, j.spec, j.sc, j.seed)
		}(i, j)
	}
	wg.Wait()

	debug := os.Getenv("C13_DEBUG") != ""
	inst := map[string]bool{}
	var inconsistent []string
	for _, o := range out {
		r := o.res
		if r.BuildErr != nil || r.Wire == nil {
			c.Count("build-error")
			if debug {
				fmt.Println("BUILD", o.name, r.BuildErr)
			}
			continue
		}
		w := r.Wire
		vt, wt := hs.ViewTerm(r), hs.WireTerm(w)
		adv := advertised(w, o.specmin)
		if !inst[o.name] {
			inst[o.name] = true
			// instance: what the spec says, what reached Config, what reached the wire
			var specMin, specMax uint16
			if r.Spec != nil {
				specMin, specMax = r.Spec.TLSVersMin, r.Spec.TLSVersMax
			}
			consistent := true
			for _, v := range r.View.ClientVersions {
				if !hs.ContainsU16(adv, v) {
					consistent = false
				}
			}
			if !consistent {
				inconsistent = append(inconsistent, fmt.Sprintf("%s(spec %x..%x, accepts %x, advertises %x)", o.name, specMin, specMax, r.View.ClientVersions, adv))
			}
			c.Case("instance", fmt.Sprintf("(CInst %s %d %s)", vt, o.specmin, wt), "inst/"+o.name, !consistent || w.HasSupportedVers,
				map[string]any{"parrot": o.name, "spec_min": specMin, "spec_max": specMax, "config_versions": r.View.ClientVersions,
					"wire_supported_versions": w.SupportedVersions, "wire_legacy_version": w.LegacyVersion, "consistent": consistent})
		}
		if !o.applies {
			c.Count("not-applicable")
			continue
		}
		completed := r.ClientErr == nil
		vers := r.ClientState.Version
		sentinel := len(r.Trace.ServerRandom) == 32 && strings.HasPrefix(string(r.Trace.ServerRandom[24:]), "DOWNGRD") &&
			(r.Trace.ServerRandom[31] == 0 || r.Trace.ServerRandom[31] == 1)
		input := map[string]any{"parrot": o.name, "scenario": o.sc.name, "server_max_version": o.sc.maxVers, "server_acted_at": r.Trace.Version,
			"hello_legacy_version": r.Trace.HelloVers, "hello_supported_version": r.Trace.HelloSV, "sentinel": sentinel,
			"wire_supported_versions": w.SupportedVersions, "wire_legacy_version": w.LegacyVersion, "advertised": adv}

		// ---- (c) the property's own oracle ----
		if completed && !hs.ContainsU16(adv, vers) {
			c.Fail("version/"+o.name, fmt.Sprintf("client completed the handshake at version %x which its ClientHello did not advertise", vers),
				input, map[string]any{"version": vers, "app_data": r.AppData}, adv)
		}
		if completed && vers <= tls.VersionTLS12 && sentinel && w.HasSupportedVers && hs.ContainsU16(w.SupportedVersions, tls.VersionTLS13) {
			k := "canary/" + o.name
			c.Fail(k, fmt.Sprintf("client offered TLS 1.3 and completed at %x although the ServerHello carried the downgrade sentinel", vers),
				input, map[string]any{"version": vers, "random_tail": vh.Hex(r.Trace.ServerRandom[24:])}, "abort with illegal_parameter")
		}

		// ---- (b) decision correspondence ----
		fl, ok := hs.FlightTerm(r, o.script, alpnPrefs)
		if !ok || (r.AlertFromServer >= 0 && !completed) {
			c.Count("server-declined")
			if debug {
				fmt.Printf("%-28s %-24s SERVER DECLINED serr=%q cerr=%q\n", o.name, o.sc.name, errStr(r.ServerErr), errStr(r.ClientErr))
			}
			continue
		}
		kind := o.sc.name
		if i := strings.Index(kind, "-canary"); i > 0 && strings.HasPrefix(kind, "force") {
			kind = "force-low" + kind[i:]
		}
		c.Case(kind, fmt.Sprintf("(CVers %s %d %s %s %s)", vt, o.specmin, wt, fl, hs.ObsTerm(r)), o.sc.name+"/"+o.name,
			completed || sentinel || !hs.ContainsU16(adv, r.Trace.Version),
			map[string]any{"parrot": o.name, "scenario": o.sc.name, "completed": completed, "version": vers, "client_error": errStr(r.ClientErr), "alert": hs.ClientAlert(r)})
		if debug {
			fmt.Printf("%-28s %-24s acted=%x completed=%-5v vers=%x sentinel=%-5v alert=%-3d adv=%x cerr=%q serr=%q\n", o.name, o.sc.name, r.Trace.Version, completed, vers, sentinel, hs.ClientAlert(r), adv, errStr(r.ClientErr), errStr(r.ServerErr))
		}
	}
	c.Extra["specs_with_config_range_outside_advertised"] = inconsistent
	if debug {
		for _, s := range inconsistent {
			fmt.Println("INCONSISTENT", s)
		}
		for _, k := range vh.SortedKeys(c.Dist) {
			fmt.Println(k, c.Dist[k])
		}
	}
}

func errStr(e error) string {
	if e == nil {
		return ""
	}
	return strings.ReplaceAll(e.Error(), "\n", " ")
}

// C17 runner: every TLS 1.3 parrot against the scripted server (verif_server.go), which answers with a
// HelloRetryRequest for each classical group the parrot lists without a share x cookie sizes, and with
// invalid HelloRetryRequests (unoffered group, group already shared, nothing to change). Both
// ClientHellos are taken from the wire and compared extension by extension (Go-side oracle written from
// the property text); uconn.Extensions before and after are compared with Model/Hrr.v (CStep skeletons
// for every run, CWire byte-exact for a sample), invalid ones with Negotiate.process_hrr (CReject).
package main

import (
	"bytes"
	"fmt"
	"io"
	"net"
	"sync"

	tls "github.com/refraction-networking/utls"
	"verif/harness/extcoq"
	"verif/harness/hs"
	"verif/harness/vh"
)

func main() { vh.Main(map[string]vh.Suite{"C17": {Corr: "Corr.C17Corr", Run: run}}) }

var classical = []uint16{uint16(tls.X25519), uint16(tls.CurveP256), uint16(tls.CurveP384), uint16(tls.CurveP521)}
var shareLen = map[uint16]int{29: 32, 23: 65, 24: 97, 25: 133}

// ---- wire view: header fields + (id, body) list ----
type rawExt struct {
	ID   uint16
	Body []byte
}
type rawHello struct {
	Vers   uint16
	Random []byte
	SID    []byte
	Suites []byte
	Comp   []byte
	Exts   []rawExt
}

func parseRaw(msg []byte) (*rawHello, error) {
	bad := fmt.Errorf("malformed ClientHello")
	if len(msg) < 4 || msg[0] != 1 || int(msg[1])<<16|int(msg[2])<<8|int(msg[3]) != len(msg)-4 {
		return nil, bad
	}
	b := msg[4:]
	take := func(n int) []byte {
		if n < 0 || len(b) < n {
			b = nil
			return nil
		}
		v := b[:n]
		b = b[n:]
		return v
	}
	h := &rawHello{}
	if v := take(2); v != nil {
		h.Vers = uint16(v[0])<<8 | uint16(v[1])
	} else {
		return nil, bad
	}
	h.Random = take(32)
	l := take(1)
	if l == nil {
		return nil, bad
	}
	h.SID = take(int(l[0]))
	l = take(2)
	if l == nil {
		return nil, bad
	}
	h.Suites = take(int(l[0])<<8 | int(l[1]))
	l = take(1)
	if l == nil {
		return nil, bad
	}
	h.Comp = take(int(l[0]))
	l = take(2)
	if l == nil || int(l[0])<<8|int(l[1]) != len(b) {
		return nil, bad
	}
	for len(b) > 0 {
		hd := take(4)
		if hd == nil {
			return nil, bad
		}
		body := take(int(hd[2])<<8 | int(hd[3]))
		if body == nil && (hd[2] != 0 || hd[3] != 0) {
			return nil, bad
		}
		h.Exts = append(h.Exts, rawExt{uint16(hd[0])<<8 | uint16(hd[1]), append([]byte{}, body...)})
	}
	return h, nil
}

type share struct {
	Group uint16
	Data  []byte
}

func parseShares(body []byte) ([]share, bool) {
	if len(body) < 2 || int(body[0])<<8|int(body[1]) != len(body)-2 {
		return nil, false
	}
	b := body[2:]
	var out []share
	for len(b) > 0 {
		if len(b) < 4 {
			return nil, false
		}
		n := int(b[2])<<8 | int(b[3])
		if len(b) < 4+n {
			return nil, false
		}
		out = append(out, share{uint16(b[0])<<8 | uint16(b[1]), b[4 : 4+n]})
		b = b[4+n:]
	}
	return out, true
}

func special(id uint16) bool { return id == 51 || id == 44 || id == 21 }

func find(h *rawHello, id uint16) []rawExt {
	var out []rawExt
	for _, e := range h.Exts {
		if e.ID == id {
			out = append(out, e)
		}
	}
	return out
}

// ---- uconn.Extensions snapshots ----
func isBoring(f func(int) (int, bool)) bool {
	for _, u := range []int{0, 100, 255, 256, 300, 507, 508, 511, 512, 600, 2000} {
		l1, w1 := f(u)
		l2, w2 := tls.BoringPaddingStyle(u)
		if l1 != l2 || w1 != w2 {
			return false
		}
	}
	return true
}

// skeleton renders one extension as a Corr/C17Corr.v `sk`; ok=false when the model has no counterpart
// (a padding functor other than BoringPaddingStyle / nil).
func skeleton(e tls.TLSExtension, ref []byte) (string, bool) {
	switch x := e.(type) {
	case *tls.KeyShareExtension:
		it := make([]string, len(x.KeyShares))
		for i, ks := range x.KeyShares {
			it[i] = fmt.Sprintf("(%d, %d)", uint16(ks.Group), len(ks.Data))
		}
		return "SKS " + vh.List(it), true
	case *tls.CookieExtension:
		if len(ref) > 0 && bytes.Equal(x.Cookie, ref) {
			return "SCookieRef", true
		}
		return "SCookie " + vh.Bytes(x.Cookie), true
	case *tls.UtlsPaddingExtension:
		boring := false
		if x.GetPaddingLen != nil {
			if !isBoring(x.GetPaddingLen) {
				return "", false
			}
			boring = true
		}
		return fmt.Sprintf("SPad %s %d %s", vh.Bool(boring), x.PaddingLen, vh.Bool(x.WillPad)), true
	}
	_, psk1 := e.(*tls.UtlsPreSharedKeyExtension)
	_, psk2 := e.(*tls.FakePreSharedKeyExtension)
	n := e.Len()
	id := 0
	if n >= 4 {
		buf := make([]byte, n)
		if m, err := e.Read(buf); (err == nil || err == io.EOF) && m >= 2 {
			id = int(buf[0])<<8 | int(buf[1])
		}
	}
	return fmt.Sprintf("SOther %s %d %d", vh.Bool(psk1 || psk2), id, n), true
}

func skeletons(es []tls.TLSExtension, ref []byte) (string, bool) {
	it := make([]string, len(es))
	for i, e := range es {
		s, ok := skeleton(e, ref)
		if !ok {
			return "", false
		}
		it[i] = s
	}
	return vh.List(it), true
}

func extTerms(es []tls.TLSExtension) (string, bool) {
	it := make([]string, len(es))
	for i, e := range es {
		s, ok := extcoq.ExtTerm(e)
		if !ok {
			return "", false
		}
		it[i] = s
	}
	return vh.List(it), true
}

// keyShareVariant: the predefined spec of id with the key_share extension's list replaced (a fresh spec per call: extension
// values are mutated by the connection that uses them). Custom specs reach key-share shapes no shipped parrot has: a hybrid
// share only, hybrid + P-256 without X25519, P-256 only, GREASE + hybrid.
func keyShareVariant(id tls.ClientHelloID, groups []tls.CurveID) func() *tls.ClientHelloSpec {
	return func() *tls.ClientHelloSpec {
		spec, err := tls.UTLSIdToSpec(id)
		if err != nil {
			return nil
		}
		for _, e := range spec.Extensions {
			if ks, ok := e.(*tls.KeyShareExtension); ok {
				ks.KeyShares = nil
				for _, g := range groups {
					sh := tls.KeyShare{Group: g}
					if g == tls.GREASE_PLACEHOLDER {
						sh.Data = []byte{0}
					}
					ks.KeyShares = append(ks.KeyShares, sh)
				}
			}
		}
		return &spec
	}
}

// ---- one scripted run ----
type obs struct {
	r         *hs.Result
	skBefore  string
	skOK      bool
	extBefore string
	extOK     bool
	skAfter   string
	skAfterOK bool
	cookieIdx int // index of the *CookieExtension in uconn.Extensions afterwards (-1 none)
	nBefore   int
	nAfter    int
	hadCookie bool
}

func runHRR(pr hs.Parrot, spec func() *tls.ClientHelloSpec, script *tls.VerifServerScript, wantExt bool, partner *hs.Parrot, preset bool) *obs {
	p := hs.SharedPKI()
	o := &obs{cookieIdx: -1}
	var uc *tls.UConn
	ccfg := p.ClientConfig()
	if preset {
		ccfg.CurvePreferences = []tls.CurveID{tls.X25519, tls.CurveP256, tls.CurveP384, tls.CurveP521}
	}
	if partner != nil {
		// the second UConn shares ccfg; it builds (ApplyPreset + ApplyConfig write its spec into the Config) after the first
		// ClientHello of this connection is on the wire and before the HelloRetryRequest goes out
		script.OnClientHello = func([]byte) {
			a, b := net.Pipe()
			ub := tls.UClient(a, ccfg, partner.ID)
			ub.BuildHandshakeState()
			a.Close()
			b.Close()
		}
	}
	var sp *tls.ClientHelloSpec
	if spec != nil {
		sp = spec()
	}
	o.r = hs.Run(hs.Opts{ID: pr.ID, Spec: sp, ClientCfg: ccfg, ServerCfg: p.ServerConfig("h2", "http/1.1"), Script: script,
		Prepare: func(u *tls.UConn) error {
			uc = u
			// Handshake() calls BuildHandshakeState again (u_conn.go:376); the marshal is repeated on the same values
			if err := u.BuildHandshakeState(); err != nil {
				return err
			}
			o.nBefore = len(u.Extensions)
			o.skBefore, o.skOK = skeletons(u.Extensions, script.HRRCookie)
			for _, e := range u.Extensions {
				if _, ok := e.(*tls.CookieExtension); ok {
					o.hadCookie = true
				}
			}
			if wantExt {
				o.extBefore, o.extOK = extTerms(u.Extensions)
			}
			return nil
		}})
	if uc != nil && o.r.BuildErr == nil {
		o.nAfter = len(uc.Extensions)
		o.skAfter, o.skAfterOK = skeletons(uc.Extensions, script.HRRCookie)
		for i, e := range uc.Extensions {
			if _, ok := e.(*tls.CookieExtension); ok && o.cookieIdx < 0 {
				o.cookieIdx = i
			}
		}
	}
	return o
}

// probe: the parrot's offered groups and shares (classical ones do not vary between connections)
func probe(pr hs.Parrot, spec func() *tls.ClientHelloSpec) *hs.WireHello {
	a, b := net.Pipe()
	defer a.Close()
	defer b.Close()
	uc := tls.UClient(a, hs.SharedPKI().ClientConfig(), pr.ID)
	if spec != nil {
		if err := uc.ApplyPreset(spec()); err != nil {
			return nil
		}
	}
	if err := uc.BuildHandshakeState(); err != nil {
		return nil
	}
	w, err := hs.ParseClientHello(uc.HandshakeState.Hello.Raw)
	if err != nil {
		return nil
	}
	return w
}

func cookieOf(c *vh.Ctx, n int, tag string) []byte {
	if n == 0 {
		return nil
	}
	r := vh.NewRand(c.Seed*7919 + int64(n)*31 + int64(len(tag)))
	for _, ch := range tag {
		r.Int63n(int64(ch) + 1)
	}
	b := make([]byte, n)
	r.Read(b)
	return b
}

type job struct {
	pi      int
	pr      hs.Parrot
	kind    string // "valid", "cookie-only", "unoffered", "shared", "nochange", and the shared-Config / preset-Config kinds
	group   uint16
	cookie  int
	wantExt bool
	// suite: TLS 1.3 cipher suite the server is made to select (0 = its own choice)
	suite uint16
	// partner: another parrot that builds its handshake state ON THE SAME *tls.Config while this connection waits for the
	// server's reply (triggered from the scripted server's OnClientHello); uTLS writes each spec's lists into the Config
	partner *hs.Parrot
	// preset: Config.CurvePreferences set by the application before UClient (all four classical curves)
	preset bool
	// spec: non-nil for a custom ClientHelloSpec (HelloCustom + ApplyPreset), a fresh value per call
	spec func() *tls.ClientHelloSpec
}

func run(c *vh.Ctx) {
	thorough := c.Tier != "quick"
	cookieSizes := []int{0, 1, 32, 255, 4094}
	var jobs []job
	tls13 := 0
	// probes of all TLS 1.3 parrots first: partners for the shared-Config scenarios are chosen from them
	type probed struct {
		pi   int
		pr   hs.Parrot
		w    *hs.WireHello
		spec func() *tls.ClientHelloSpec
	}
	var ps []probed
	for pi, pr := range hs.Parrots() {
		w := probe(pr, nil)
		if w == nil || !hs.ContainsU16(w.SupportedVersions, tls.VersionTLS13) || !w.HasKeyShare {
			c.Count("parrot-without-tls13")
			continue
		}
		ps = append(ps, probed{pi, pr, w, nil})
	}
	// a TLS 1.3 parrot (other than self) that lists / does not list group g, rotating with the seed
	partnerFor := func(self string, g uint16, lists bool, salt int) *hs.Parrot {
		for k := range ps {
			q := ps[(k+salt+int(c.Seed))%len(ps)]
			if q.pr.Name != self && hs.ContainsU16(q.w.SupportedGroups, g) == lists {
				pr := q.pr
				return &pr
			}
		}
		return nil
	}
	// custom specs: every parrot that lists a hybrid group, with its key_share list replaced by shapes no parrot ships
	// (quick: two of those parrots, rotating with the seed)
	var vs []probed
	var bases []probed
	for _, q := range ps {
		if hs.ContainsU16(q.w.SupportedGroups, uint16(tls.X25519MLKEM768)) || hs.ContainsU16(q.w.SupportedGroups, uint16(tls.X25519Kyber768Draft00)) {
			bases = append(bases, q)
		}
	}
	// quick: one base per hybrid group kind (X25519MLKEM768, X25519Kyber768Draft00), rotating with the seed; thorough: all
	pick := map[uint16]int{}
	count := map[uint16]int{}
	kindOf := func(q probed) uint16 {
		if hs.ContainsU16(q.w.SupportedGroups, uint16(tls.X25519MLKEM768)) {
			return uint16(tls.X25519MLKEM768)
		}
		return uint16(tls.X25519Kyber768Draft00)
	}
	for _, q := range bases {
		count[kindOf(q)]++
	}
	for k, n := range count {
		pick[k] = int(c.Seed) % n
	}
	seen := map[uint16]int{}
	for _, q := range bases {
		kd := kindOf(q)
		idx := seen[kd]
		seen[kd]++
		if !thorough && idx != pick[kd] {
			continue
		}
		hy := tls.X25519MLKEM768
		if !hs.ContainsU16(q.w.SupportedGroups, uint16(hy)) {
			hy = tls.X25519Kyber768Draft00
		}
		for _, v := range []struct {
			tag    string
			groups []tls.CurveID
		}{
			{"hybrid-only", []tls.CurveID{hy}},
			{"hybrid+p256", []tls.CurveID{hy, tls.CurveP256}},
			{"p256-only", []tls.CurveID{tls.CurveP256}},
			{"grease+hybrid", []tls.CurveID{tls.GREASE_PLACEHOLDER, hy}},
			{"p256+x25519", []tls.CurveID{tls.CurveP256, tls.X25519}},
		} {
			pr := hs.Parrot{Name: q.pr.Name + "+keyshare-" + v.tag, ID: tls.HelloCustom}
			spec := keyShareVariant(q.pr.ID, v.groups)
			w := probe(pr, spec)
			if w == nil {
				c.Count("custom-spec-does-not-build")
				continue
			}
			vs = append(vs, probed{100 + len(vs), pr, w, spec})
		}
	}
	c.Extra["custom_specs"] = len(vs)
	for _, pp := range append(append([]probed{}, ps...), vs...) {
		pi, pr, w := pp.pi, pp.pr, pp.w
		cookieSizes := cookieSizes
		if pp.spec != nil {
			cookieSizes = []int{0, 32}
		}
		tls13++
		j0 := len(jobs)
		var valid []uint16
		for _, g := range classical {
			if hs.ContainsU16(w.SupportedGroups, g) && !hs.ContainsU16(w.KeyShareGroups, g) {
				valid = append(valid, g)
			}
		}
		var suites13 []uint16
		for _, s := range w.CipherSuites {
			if s == tls.TLS_AES_128_GCM_SHA256 || s == tls.TLS_AES_256_GCM_SHA384 || s == tls.TLS_CHACHA20_POLY1305_SHA256 {
				suites13 = append(suites13, s)
			}
		}
		first := true
		for gi, g := range valid {
			for ci, n := range cookieSizes {
				// byte-exact cases: one per parrot in the quick tier (rotating cookie size), all but the 4094-byte ones in thorough
				wantExt := (first && ci == (pi+int(c.Seed))%min(4, len(cookieSizes))) || (thorough && n != 4094)
				if wantExt {
					first = false
				}
				jobs = append(jobs, job{pi: pi, pr: pr, kind: "valid", group: g, cookie: n, wantExt: wantExt})
			}
			// every TLS 1.3 suite the parrot offers (SHA-256 and SHA-384 transcripts: the message_hash substitution depends on
			// the hash), the server made to select it; cookie size rotates
			for si, su := range suites13 {
				if pp.spec != nil && si != (pi+gi+int(c.Seed))%len(suites13) {
					continue // custom specs: one suite per group, rotating
				}
				n := cookieSizes[(pi+gi+si+int(c.Seed))%min(3, len(cookieSizes))]
				jobs = append(jobs, job{pi: pi, pr: pr, kind: "valid", group: g, cookie: n, suite: su})
				if thorough {
					jobs = append(jobs, job{pi: pi, pr: pr, kind: "valid", group: g, cookie: 255, suite: su, wantExt: true})
				}
			}
			// one *tls.Config shared with a parrot that does NOT list g, building in between: the HRR is still valid for this hello
			if gi == (pi+int(c.Seed))%len(valid) || thorough {
				if q := partnerFor(pr.Name, g, false, pi); q != nil {
					jobs = append(jobs, job{pi: pi, pr: pr, kind: "valid-shared", group: g, cookie: 32, partner: q})
				}
			}
		}
		if len(valid) == 0 {
			c.Count("parrot-without-unshared-classical-group")
		}
		// cookie-only HelloRetryRequest (RFC 8446 allows it): key_share must stay as it was
		// (only when the hello carries a share for the group the server will settle on - its most preferred group among those
		// the hello lists: after a cookie-only HRR the key_share is unchanged, and a server that wants another group must ask
		// again, which no client may accept)
		usable := false
		for _, g := range []uint16{uint16(tls.X25519MLKEM768), 29, 23, 24, 25} {
			if hs.ContainsU16(w.SupportedGroups, g) {
				usable = hs.ContainsU16(w.KeyShareGroups, g)
				break
			}
		}
		for i, n := range []int{16, 300} {
			if !usable {
				c.Count("cookie-only-not-applicable-no-usable-share")
				break
			}
			j := job{pi: pi, pr: pr, kind: "cookie-only", cookie: n, wantExt: thorough}
			if len(suites13) > 0 {
				j.suite = suites13[(pi+i)%len(suites13)]
			}
			jobs = append(jobs, j)
		}
		// invalid selections
		for _, g := range []uint16{25, 24, 23, 29, 30} {
			if !hs.ContainsU16(w.SupportedGroups, g) {
				jobs = append(jobs, job{pi: pi, pr: pr, kind: "unoffered", group: g}, job{pi: pi, pr: pr, kind: "unoffered", group: g, cookie: 32})
				// the application pre-set Config.CurvePreferences to more than the spec lists
				jobs = append(jobs, job{pi: pi, pr: pr, kind: "unoffered-preset", group: g, preset: true})
				break
			}
		}
		// every classical group this hello does not list but ANOTHER TLS 1.3 parrot does: that parrot builds on the same Config
		// between the first flight and the HelloRetryRequest
		nshared := 0
		for _, g := range classical {
			if hs.ContainsU16(w.SupportedGroups, g) {
				continue
			}
			if q := partnerFor(pr.Name, g, true, pi+nshared); q != nil && (nshared == 0 || thorough) {
				jobs = append(jobs, job{pi: pi, pr: pr, kind: "unoffered-shared", group: g, partner: q},
					job{pi: pi, pr: pr, kind: "unoffered-shared", group: g, cookie: 32, partner: q, preset: true})
				nshared++
			}
		}
		for _, g := range w.KeyShareGroups {
			if !hs.IsGREASE(g) {
				jobs = append(jobs, job{pi: pi, pr: pr, kind: "shared", group: g})
				if thorough {
					jobs = append(jobs, job{pi: pi, pr: pr, kind: "shared", group: g, cookie: 32})
				}
			}
		}
		jobs = append(jobs, job{pi: pi, pr: pr, kind: "nochange"})
		for k := j0; k < len(jobs); k++ {
			jobs[k].spec = pp.spec
		}
	}
	c.Extra["tls13_parrots"] = tls13
	c.Extra["jobs"] = len(jobs)

	results := make([]*obs, len(jobs))
	scripts := make([]*tls.VerifServerScript, len(jobs))
	cookies := make([][]byte, len(jobs))
	var wg sync.WaitGroup
	sem := make(chan struct{}, 8)
	for i, j := range jobs {
		cookies[i] = cookieOf(c, j.cookie, j.pr.Name+j.kind)
		s := &tls.VerifServerScript{HRRGroup: tls.CurveID(j.group), HRRCookie: cookies[i], Suite: j.suite}
		if j.kind == "nochange" {
			s.ForceHRR = true
		}
		scripts[i] = s
		wg.Add(1)
		sem <- struct{}{}
		go func(i int, j job) {
			defer wg.Done()
			defer func() { <-sem }()
			results[i] = runHRR(j.pr, j.spec, scripts[i], j.wantExt, j.partner, j.preset)
		}(i, j)
	}
	wg.Wait()
	for i, j := range jobs {
		judge(c, j, cookies[i], results[i])
	}
}

func describe(j job) map[string]any {
	m := map[string]any{"parrot": j.pr.Name, "kind": j.kind, "hrr_group": j.group, "cookie_len": j.cookie}
	if j.suite != 0 {
		m["server_suite"] = j.suite
	}
	if j.partner != nil {
		m["shared_config_with"] = j.partner.Name
	}
	if j.preset {
		m["config_curve_preferences_preset"] = true
	}
	return m
}

func judge(c *vh.Ctx, j job, cookie []byte, o *obs) {
	r := o.r
	name := j.pr.Name
	in := describe(j)
	if r.BuildErr != nil {
		c.Fail("build/"+name, "BuildHandshakeState failed", in, r.BuildErr.Error(), "nil")
		return
	}
	if !r.Trace.SentHRR {
		c.Count("server-sent-no-hrr")
		return
	}
	switch j.kind {
	case "valid", "cookie-only", "valid-shared":
		judgeValid(c, j, cookie, o)
	default:
		judgeInvalid(c, j, cookie, o)
	}
}

func judgeInvalid(c *vh.Ctx, j job, cookie []byte, o *obs) {
	r := o.r
	name := j.pr.Name
	in := describe(j)
	key := "reject/" + j.kind + "/" + name
	// ---- Go-side oracle (property text): the client aborts ----
	if r.ClientErr == nil {
		c.Fail(key, "client completed a handshake after an invalid HelloRetryRequest", in,
			fmt.Sprintf("completed, curve %d, app data %v", r.ClientCurve, r.AppData), "handshake error")
	} else if len(r.Hellos) != 1 {
		c.Fail(key, "client answered an invalid HelloRetryRequest with another ClientHello", in, len(r.Hellos), 1)
	}
	// ---- model: the alert is process_hrr's ----
	if r.Wire == nil {
		return
	}
	m := fmt.Sprintf("(Negotiate.mkHello 771 772 0 %s %d 0 0 %d %s None [])", vh.Bytes(r.Wire.SessionID), r.Trace.HRRSuite, j.group, vh.Bool(len(cookie) > 0))
	term := fmt.Sprintf("(CReject %s %s %d %d)", qualify(hs.ViewTerm(r)), m, hs.ClientAlert(r), len(r.Hellos))
	c.Case("reject-"+j.kind, term, fmt.Sprintf("%s/%s/%d/%d/%v", j.kind, name, j.group, j.cookie, j.preset), true,
		map[string]any{"in": in, "alert": hs.ClientAlert(r), "client_err": fmt.Sprint(r.ClientErr)})
}

// hs.ViewTerm emits `mkView ...` for files that import Model.Negotiate; C17Corr only Requires it.
func qualify(t string) string { return "(Negotiate." + t[1:] }

func judgeValid(c *vh.Ctx, j job, cookie []byte, o *obs) {
	r := o.r
	name := j.pr.Name
	in := describe(j)
	// ---- Go-side oracle, from the property text ----
	if r.ClientErr != nil || !r.AppData {
		c.Fail("complete/"+name, "handshake did not complete after a valid HelloRetryRequest", in,
			fmt.Sprintf("client: %v; server: %v; app data: %v", r.ClientErr, r.ServerErr, r.AppData), "completed handshake with application data")
		return
	}
	if j.group != 0 && (r.ClientCurve != j.group || r.ServerCurve != j.group) {
		c.Fail("complete/"+name, "handshake completed on another group than the HelloRetryRequest's", in,
			fmt.Sprintf("client %d server %d", r.ClientCurve, r.ServerCurve), j.group)
	}
	if j.suite != 0 && (r.ClientState.CipherSuite != j.suite || r.ServerState.CipherSuite != j.suite) {
		c.Fail("complete/"+name, "handshake completed on another cipher suite than the one the server selected", in,
			fmt.Sprintf("client %#04x server %#04x", r.ClientState.CipherSuite, r.ServerState.CipherSuite), fmt.Sprintf("%#04x", j.suite))
	}
	c.Count(fmt.Sprintf("completed-with-suite-%#04x", r.ClientState.CipherSuite))
	if len(r.Hellos) != 2 {
		c.Fail("complete/"+name, "expected two ClientHellos on the wire", in, len(r.Hellos), 2)
		return
	}
	h1, e1 := parseRaw(r.Hellos[0])
	h2, e2 := parseRaw(r.Hellos[1])
	if e1 != nil || e2 != nil {
		c.Fail("diff/"+name+"/framing", "a ClientHello does not parse", in, fmt.Sprint(e1, e2), "well-formed")
		return
	}
	if h1.Vers != h2.Vers || !bytes.Equal(h1.Random, h2.Random) || !bytes.Equal(h1.SID, h2.SID) ||
		!bytes.Equal(h1.Suites, h2.Suites) || !bytes.Equal(h1.Comp, h2.Comp) {
		c.Fail("diff/"+name+"/header", "legacy_version / random / session id / cipher suites / compression differ between the two hellos", in,
			vh.Hex(r.Hellos[1][:min(120, len(r.Hellos[1]))]), vh.Hex(r.Hellos[0][:min(120, len(r.Hellos[0]))]))
	}
	// every extension other than key_share, cookie, padding: byte-identical, same relative order
	var a, b []rawExt
	for _, e := range h1.Exts {
		if e.ID != 44 && e.ID != 21 {
			a = append(a, e)
		}
	}
	for _, e := range h2.Exts {
		if e.ID != 44 && e.ID != 21 {
			b = append(b, e)
		}
	}
	if len(a) != len(b) {
		c.Fail("diff/"+name+"/count", "the second hello has a different number of extensions (cookie and padding aside)", in, ids(h2.Exts), ids(h1.Exts))
	} else {
		for i := range a {
			if a[i].ID != b[i].ID {
				c.Fail(fmt.Sprintf("diff/%s/%d", name, a[i].ID), "extension order changed between the two hellos", in, ids(h2.Exts), ids(h1.Exts))
				break
			}
			if a[i].ID != 51 && !bytes.Equal(a[i].Body, b[i].Body) {
				c.Fail(fmt.Sprintf("diff/%s/%d", name, a[i].ID), "an extension other than key_share, cookie, padding changed", in, vh.Hex(b[i].Body), vh.Hex(a[i].Body))
			}
		}
	}
	// the last extension: a trailing pre_shared_key must stay last
	if n := len(h1.Exts); n > 0 && h1.Exts[n-1].ID == 41 && h2.Exts[len(h2.Exts)-1].ID != 41 {
		c.Fail("diff/"+name+"/41", "pre_shared_key is no longer the last extension", in, ids(h2.Exts), ids(h1.Exts))
	}
	// key_share
	ks1, ks2 := find(h1, 51), find(h2, 51)
	if len(ks1) != 1 || len(ks2) != 1 {
		c.Fail("keyshare/"+name, "expected exactly one key_share extension in each hello", in, fmt.Sprint(len(ks1), len(ks2)), "1 1")
	} else {
		s1, ok1 := parseShares(ks1[0].Body)
		s2, ok2 := parseShares(ks2[0].Body)
		switch {
		case !ok1 || !ok2:
			c.Fail("keyshare/"+name, "key_share does not parse", in, vh.Hex(ks2[0].Body), "well-formed")
		case j.group == 0:
			if !bytes.Equal(ks1[0].Body, ks2[0].Body) {
				c.Fail("keyshare/"+name, "key_share changed although the HelloRetryRequest named no group", in, vh.Hex(ks2[0].Body), vh.Hex(ks1[0].Body))
			}
		default:
			if len(s2) != 1 || s2[0].Group != j.group || len(s2[0].Data) != shareLen[j.group] {
				c.Fail("keyshare/"+name, "second key_share is not exactly one share for the requested group", in, shareIDs(s2), []uint16{j.group})
			} else {
				// fresh: the new public key occurs in no key_exchange byte string of the first hello, neither as a whole
				// share nor as a part of one (a hybrid share carries an X25519 public key next to the ML-KEM key)
				for _, s := range s1 {
					if bytes.Contains(s.Data, s2[0].Data) {
						c.Fail("keyshare/"+name, "the share in the second hello is not fresh: its bytes were already sent in the first hello's key_share", in,
							fmt.Sprintf("group %d: %s, found in the first hello's share for group %d", s2[0].Group, vh.Hex(s2[0].Data), s.Group), "new key")
					}
				}
				if bytes.Equal(s2[0].Data, make([]byte, len(s2[0].Data))) {
					c.Fail("keyshare/"+name, "the share in the second hello is all zero", in, vh.Hex(s2[0].Data), "public key")
				}
			}
		}
	}
	// cookie
	c1, c2 := find(h1, 44), find(h2, 44)
	if len(c1) != 0 {
		c.Count("first-hello-had-cookie")
	}
	if len(cookie) == 0 {
		if len(c2) != len(c1) {
			c.Fail("cookie/"+name, "a cookie extension appeared although the HelloRetryRequest carried none", in, len(c2), len(c1))
		}
	} else {
		want := append([]byte{byte(len(cookie) >> 8), byte(len(cookie))}, cookie...)
		if len(c2) != 1 || !bytes.Equal(c2[0].Body, want) {
			got := "none"
			if len(c2) > 0 {
				got = vh.Hex(c2[0].Body[:min(40, len(c2[0].Body))])
			}
			c.Fail("cookie/"+name, "the second hello does not echo the server's cookie in exactly one cookie extension", in,
				fmt.Sprintf("%d cookie extension(s), first: %s", len(c2), got), vh.Hex(want[:min(40, len(want))]))
		}
	}
	// padding: at most one, and never together with ... nothing more is required by the property

	// ---- model ----
	idx := 0
	if len(cookie) > 0 && !o.hadCookie {
		idx = o.cookieIdx
		if idx < 0 {
			c.Fail("cookie/"+name, "no CookieExtension in uconn.Extensions after the handshake", in, "absent", "present")
			return
		}
		// position bound of the property design (never after a trailing PSK, within bounds)
		if idx >= o.nBefore || (o.nBefore >= 3 && idx > o.nBefore-3) {
			c.Fail("cookie/"+name, "cookie extension inserted at an index outside [0, len-3]", in, idx, fmt.Sprintf("<= %d", o.nBefore-3))
		}
	}
	kind := j.kind
	// Coq elaborates long literals slowly: in the quick tier the 255- and 4094-byte cookies go to Coq for every
	// sixth parrot only (rotating with the seed; 4094 bytes: with P-256 / X25519 only); the Go-side oracle above has judged all of them
	if c.Tier == "quick" && j.suite != 0 && j.spec == nil && j.kind == "valid" && !j.wantExt {
		// the suite-crossing rows repeat the extension-list surgery of the default-suite rows: judged by the Go-side oracle
		c.Count("step-suite-row-go-oracle-only")
	} else if c.Tier == "quick" && ((j.cookie >= 255 && (j.pi+int(c.Seed))%6 != 0) || (j.cookie > 255 && j.group != 23 && j.group != 29)) {
		c.Count("step-long-cookie-go-oracle-only")
	} else if o.skOK && o.skAfterOK {
		term := fmt.Sprintf("(CStep %d %d %d %d %d %d %s %d %s %s)", len(h1.SID), len(h1.Suites)/2, len(h1.Comp), r.View.PSKIdentities,
			j.group, shareLen[j.group], vh.Bytes(cookie), idx, o.skBefore, o.skAfter)
		c.Case("step-"+kind, term, fmt.Sprintf("%s/%d/%d/%d", name, j.group, j.cookie, j.suite), true,
			map[string]any{"in": in, "cookie_index": idx, "extensions_before": o.nBefore, "ids1": ids(h1.Exts), "ids2": ids(h2.Exts)})
	} else {
		c.Count("step-not-modelled")
	}
	if j.wantExt && o.extOK {
		var fresh []byte
		if j.group != 0 && len(ks2) == 1 {
			if s2, ok := parseShares(ks2[0].Body); ok && len(s2) == 1 {
				fresh = s2[0].Data
			}
		}
		term := fmt.Sprintf("(CWire %s %s %d %d %s %s %d %s)", vh.Bytes(r.Hellos[0]), vh.Bytes(r.Hellos[1]), r.View.PSKIdentities,
			j.group, vh.Bytes(fresh), vh.Bytes(cookie), idx, o.extBefore)
		c.Case("wire-"+kind, term, fmt.Sprintf("%s/%d/%d/%d", name, j.group, j.cookie, j.suite), true, nil)
	}
}

func ids(es []rawExt) []uint16 {
	out := make([]uint16, len(es))
	for i, e := range es {
		out[i] = e.ID
	}
	return out
}

func shareIDs(s []share) []uint16 {
	out := make([]uint16, len(s))
	for i, e := range s {
		out[i] = e.Group
	}
	return out
}

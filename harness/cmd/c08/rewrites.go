package main

// Write on objects that are NOT fresh. Part B hands every body to a new object from
// ExtensionFromID; but Write is a method of a mutable object, and "decoding a body ... and encoding
// again reproduces the same bytes up to the documented normalisations" must not depend on what
// the object held before: state left over from before the Write must not leak into Len()/Read().
// For EVERY type with a Write method:
//
//	prepopulated  a generated value of the type, already encoded once (Len+Read), receives the
//	              body of a SECOND generated value of the same type
//	long-short    a fresh object is written with a long body, encoded, then written with a short
//	              (or empty) one; and short-long the other way round
//
// Judgement, from the property text:
//   - types whose documented normalisation is "the body is ignored / dropped / recomputed"
//     (server_name, session_ticket, renegotiation_info, padding, real PSK, NPN): the object must
//     encode exactly as it did before the Write;
//   - every other type: the object must encode exactly as a FRESH object written with the same
//     (last) body does (GREASE ECH: random positions masked, sizes compared).
// The second group is also emitted as a Coq oracle case: the model's ext_write is a function of
// (id, body) only (C08_write_read), so a leak shows as a failing case under the same key.

import (
	"bytes"
	"encoding/binary"
	"fmt"
	"math/rand"
	"reflect"

	tls "github.com/refraction-networking/utls"
	"verif/harness/extcoq"
	"verif/harness/vh"
)

// ids whose Write ignores the body by documented design (property text: "the SNI name and
// session-ticket contents are dropped; renegotiation-info and real-PSK bodies are ignored;
// padding is recomputed by policy"; NPN's protocols are never on the wire)
var bodyIgnored = map[uint16]bool{0: true, 35: true, 0xff01: true, 21: true, 13172: true}

type encoding struct {
	L      int
	k      int
	err    error
	b      []byte
	panics bool
}

func encodeObj(e tls.TLSExtension) (enc encoding) {
	var pl, pr bool
	enc.L, pl = safeLen(e)
	if pl || enc.L < 0 {
		enc.panics = true
		return
	}
	enc.b = make([]byte, enc.L)
	pr, _ = vh.Recover(func() { enc.k, enc.err = e.Read(enc.b) })
	enc.panics = pr
	return
}

func (a encoding) same(b encoding, id uint16) bool {
	if a.panics || b.panics {
		return false
	}
	x, y := a.b, b.b
	if id == 0xfe0d {
		x, y = echMask(x), echMask(y)
	}
	return a.L == b.L && a.k == b.k && isEOF(a.err) == isEOF(b.err) && bytes.Equal(x, y)
}

func (a encoding) show() map[string]any {
	return map[string]any{"Len": a.L, "read": a.k, "err": errText(a.err), "bytes": clip(vh.Hex(a.b), 240), "panic": a.panics}
}

func writeOn(w tls.TLSExtensionWriter, body []byte) (panicked bool, err error) {
	panicked, _ = vh.Recover(func() { _, err = w.Write(append([]byte{}, body...)) })
	return
}

// exactBody encodes a generated value and returns its id and extension_data, if it has any.
func exactBody(e tls.TLSExtension) (id uint16, body []byte, ok bool) {
	enc := encodeObj(e)
	if enc.panics || !isEOF(enc.err) || enc.k != enc.L || enc.L < 4 {
		return 0, nil, false
	}
	return binary.BigEndian.Uint16(enc.b[0:2]), append([]byte{}, enc.b[4:enc.L]...), true
}

// judgeRewrite compares the object after Write(body) with what the property demands.
func (r *runner) judgeRewrite(typ, scenario, key string, w tls.TLSExtensionWriter, id uint16, body []byte, before encoding) {
	c := r.c
	_, real := w.(*tls.UtlsPreSharedKeyExtension)
	// which extension an object is (its id on the wire) belongs to the object, not to the body it is
	// handed: the fresh object to compare with is the one ExtensionFromID gives for the object's own id
	if !before.panics && isEOF(before.err) && before.k >= 4 {
		id = binary.BigEndian.Uint16(before.b[0:2])
	}
	in := map[string]any{"scenario": scenario, "id": id, "body": clip(vh.Hex(body), 300), "encoded_before_as": clip(vh.Hex(before.b), 240)}
	pw, werr := writeOn(w, body)
	if pw {
		c.Count("fail:panic")
		c.Fail(typ+"/panic", "Write() panicked on an object that was not fresh", in, "panic", "an error or a value")
		return
	}
	// what a fresh object does with the same body
	fresh := extcoq.FromID(id, real)
	if fresh == nil || reflect.TypeOf(fresh) != reflect.TypeOf(w) {
		return
	}
	pf, ferr := writeOn(fresh, body)
	if pf {
		return // part B reports it
	}
	c.Count("check:write-non-fresh")
	fkey := typ + "/write-non-fresh"
	if (werr != nil) != (ferr != nil) {
		c.Count("fail:write-non-fresh")
		c.Fail(fkey, "Write() accepts or refuses a body depending on what the object held before", in, errText(werr), errText(ferr))
		return
	}
	if werr != nil {
		return
	}
	after := encodeObj(w)
	if bodyIgnored[id] || real {
		if !after.same(before, id) {
			c.Count("fail:write-non-fresh")
			c.Fail(fkey, "Write() of a type whose body is documented as ignored changed what the object encodes", in, after.show(), before.show())
		}
		return
	}
	want := encodeObj(fresh)
	if !after.same(want, id) {
		c.Count("fail:write-non-fresh")
		c.Fail(fkey, "after Write(body) the object does not encode like a fresh object written with the same body: state from before the Write leaks",
			in, after.show(), want.show())
	}
	// the same statement through the model: ext_write is a function of (id, body) only
	if after.L <= 6000 && !after.panics {
		shown := after.b
		if id == 0xfe0d {
			shown = echMask(after.b)
		}
		r.cases = append(r.cases, pending{kind: "rewrite/" + typ,
			coq: fmt.Sprintf("CWrite false %d %s (WOk %d %s)", id, vh.Bytes(body), after.L, robs(false, after.k, after.err, shown)),
			key: key, nontrivial: len(body) > 0,
			okey: fkey, owhat: "the object written while not fresh does not encode as the normal form of the last body (model: ext_write id body)", oinput: in})
	}
}

func (r *runner) writeNonFresh() {
	c := r.c
	for _, g := range extcoq.Generators() {
		typ := typeOf(g.Name)
		mk := func(size int) tls.TLSExtension { return g.Make(rand.New(rand.NewSource(c.Rng.Int63())), size) }
		if _, isWriter := mk(1).(tls.TLSExtensionWriter); !isWriter || typ == "GenericExtension" {
			continue
		}
		small := []int{0, 1 + c.Rng.Intn(3)}
		for idx, s2 := range []int{small[0], small[1], 12 + c.Rng.Intn(20)} {
			// ---- prepopulated ----
			e1 := mk(6 + c.Rng.Intn(20))
			before := encodeObj(e1) // also fixes lazy state: the object has been used
			id2, body2, ok := exactBody(mk(s2))
			if ok && !before.panics {
				r.judgeRewrite(typ, "prepopulated object, then Write(body of another value)",
					fmt.Sprintf("rewrite/%s/i%d/prepopulated", g.Name, idx), e1.(tls.TLSExtensionWriter), id2, body2, before)
			}
		}
		// ---- written twice: long then short, short then long ----
		for idx, sizes := range [][2]int{{14 + c.Rng.Intn(20), small[0]}, {14 + c.Rng.Intn(20), small[1]}, {small[1], 14 + c.Rng.Intn(20)}} {
			idA, bodyA, okA := exactBody(mk(sizes[0]))
			idB, bodyB, okB := exactBody(mk(sizes[1]))
			if !okA || !okB {
				continue
			}
			_, real := mk(1).(*tls.UtlsPreSharedKeyExtension)
			w := extcoq.FromID(idA, real)
			if w == nil || reflect.TypeOf(w) != reflect.TypeOf(mk(1)) {
				continue
			}
			if p, err := writeOn(w, bodyA); p || err != nil {
				continue
			}
			before := encodeObj(w)
			if before.panics {
				continue
			}
			r.judgeRewrite(typ, fmt.Sprintf("fresh object, Write(%d-byte body), encode, then Write(%d-byte body)", len(bodyA), len(bodyB)),
				fmt.Sprintf("rewrite/%s/i%d/twice", g.Name, idx), w, idB, bodyB, before)
		}
	}
}

// Runner for C08 (every extension's encoder and decoder agree).
//
//	A. READ:  generated values of every built-in TLSExtension type x buffer sizes
//	          {0, Len-1, Len, Len+7}: Len(), Read(b) observed and emitted as CRead cases.
//	B. WRITE: ExtensionFromID(id).Write(body) on bodies produced by A, on a fixed GREASE-ECH
//	          corpus and on malformed bodies; then Len()/Read() of the written object: CWrite cases.
//
// The Go-side oracles (oracle.go) are written from the property text and do not use the model.
package main

import (
	"encoding/binary"
	"fmt"
	"io"
	"reflect"
	"sort"
	"strings"

	tls "github.com/refraction-networking/utls"
	"verif/harness/extcoq"
	"verif/harness/vh"
)

func main() { vh.Main(map[string]vh.Suite{"C08": {"Corr.C08Corr", run}}) }

// types whose wire image does not depend on `size`
var constantTypes = map[string]bool{
	"StatusRequestExtension": true, "StatusRequestV2Extension": true, "SCTExtension": true,
	"ExtendedMasterSecretExtension": true, "FakeChannelIDExtension": true, "FakeRecordSizeLimitExtension": true,
}

type produced struct {
	typ  string
	id   uint16
	body []byte
}

type pending struct {
	kind, coq, key string
	nontrivial     bool
	sample         any
	// set for a case whose Coq check is the property's oracle applied to the code's output
	// (vh.OracleCase): a failure is reported under okey as a concrete failing input
	okey, owhat string
	oinput      any
}

type runner struct {
	c         *vh.Ctx
	types     map[string]bool
	pool      []produced // (id, body) pairs Read produced, for the truncation / extension cases
	cases     []pending  // buffered; flush() hands them to vh in an order that balances the shards
	firstTerm string     // set while judging an edited object (edits.go): the term of its first encoding
}

func (r *runner) emit(kind, coq, key string, nontrivial bool, sample any) {
	r.cases = append(r.cases, pending{kind: kind, coq: coq, key: key, nontrivial: nontrivial, sample: sample})
}

// vh cuts the case list into shards of shardSize consecutive cases which Coq evaluates in
// parallel; the time of a shard is dominated by the size of its terms. flush deals the cases,
// heaviest first, round-robin over the shards so that no shard collects all the 256-entry values.
// Deterministic: depends only on the cases themselves.
const shardSize = 400

func (r *runner) flush() {
	n := len(r.cases)
	if n == 0 {
		return
	}
	ns := (n + shardSize - 1) / shardSize
	order := make([]int, n)
	for i := range order {
		order[i] = i
	}
	sort.SliceStable(order, func(a, b int) bool { return len(r.cases[order[a]].coq) > len(r.cases[order[b]].coq) })
	shards := make([][]int, ns)
	capOf := func(j int) int {
		if j == ns-1 {
			return n - shardSize*(ns-1)
		}
		return shardSize
	}
	j := 0
	for _, i := range order {
		for len(shards[j]) >= capOf(j) {
			j = (j + 1) % ns
		}
		shards[j] = append(shards[j], i)
		j = (j + 1) % ns
	}
	for _, sh := range shards {
		sort.Ints(sh) // keep generation order inside a shard
		for _, i := range sh {
			p := r.cases[i]
			if p.okey != "" {
				r.c.OracleCase(p.kind, p.coq, p.okey, p.owhat, p.oinput, p.nontrivial)
			} else {
				r.c.Case(p.kind, p.coq, p.key, p.nontrivial, p.sample)
			}
		}
	}
	r.cases = nil
}

func typeOf(genName string) string {
	if i := strings.IndexByte(genName, '#'); i >= 0 {
		return genName[:i]
	}
	return genName
}

func isEOF(err error) bool { return err == nil || err == io.EOF }

func robs(panicked bool, k int, err error, b []byte) string {
	switch {
	case panicked:
		return "RPanic"
	case isEOF(err):
		if k < 0 {
			k = 0
		}
		if k > len(b) {
			k = len(b)
		}
		return "(ROk " + vh.Bytes(b[:k]) + ")"
	}
	return fmt.Sprintf("(RErr %d)", extcoq.ErrCode(err))
}

func errText(err error) string {
	if err == nil {
		return "<nil>"
	}
	return err.Error()
}

func clip(s string, n int) string {
	if len(s) > n {
		return s[:n] + "..."
	}
	return s
}

func run(c *vh.Ctx) {
	r := &runner{c: c, types: map[string]bool{}}

	// ---- A (+ B on what A produced) ----
	for _, g := range extcoq.Generators() {
		type sz struct {
			size int
			big  bool
		}
		var sizes []sz
		if constantTypes[g.Name] {
			sizes = []sz{{0, false}, {1, false}}
		} else {
			sizes = []sz{{0, false}, {1, false}, {2, false}, {3, false}, {255, true}, {256, true}}
			for i := 0; i < c.N/8; i++ {
				sizes = append(sizes, sz{c.Rng.Intn(41), false})
			}
		}
		for idx, s := range sizes {
			r.readValue(g, s.size, idx, s.big, true)
		}
	}
	// values beyond the one-byte-prefix limits: correspondence only (error branches, narrowings)
	for _, g := range extcoq.OverLimitGenerators() {
		for idx, size := range []int{0, 1} {
			r.readValue(g, size, idx, true, false)
		}
	}

	// ---- call orders on fresh objects (orders.go) ----
	r.callOrders()

	// ---- encode, edit the exported fields, encode again (edits.go) ----
	r.editAfterEncode()

	// ---- Write on objects that are not fresh (rewrites.go) ----
	r.writeNonFresh()

	// ---- B: fixed GREASE ECH corpus ----
	r.echCorpus()

	// ---- B: malformed bodies ----
	r.malformed()

	r.flush()
	c.Extra["types"] = len(r.types)
	c.Extra["pool"] = len(r.pool)
}

// readValue makes one value and runs Len/Read over the buffer sizes.
func (r *runner) readValue(g extcoq.Gen, size, idx int, big, oracle bool) {
	c := r.c
	typ := typeOf(g.Name)
	e := g.Make(c.Rng, size)
	r.types[typ] = true

	var L int
	pL, pv := vh.Recover(func() { L = e.Len() })
	// the term is taken AFTER Len(): Len() fixes the lazy state (QUIC TP marshal cache,
	// GREASE ECH init, UtlsPreSharedKeyExtension.cachedLength)
	term, ok := extcoq.ExtTerm(e)
	if pL {
		c.Count("fail:panic")
		c.Fail(typ+"/panic", "Len() panicked on a value within wire limits", clip(term, 400), fmt.Sprint(pv), "a length")
		L = 0
	}
	if !ok {
		c.Count("unrenderable")
		return
	}
	golen := vh.Opt(!pL, vh.N(uint64(L)))
	within := oracle && withinLimits(e)

	type buf struct {
		n     int
		class string
	}
	var bufs []buf
	if !big {
		bufs = append(bufs, buf{0, "0"})
	}
	if L > 0 && size != 255 { // the 255-sized value is read into the exact buffer only (volume)
		bufs = append(bufs, buf{L - 1, "L-1"})
	}
	bufs = append(bufs, buf{L, "L"})
	if !big {
		bufs = append(bufs, buf{L + 7, "L+7"})
	}

	for _, bf := range bufs {
		n := bf.n
		b := make([]byte, n) // zero-initialised, as the registry entry assumes
		var k int
		var err error
		pR, rv := vh.Recover(func() { k, err = e.Read(b) })
		obs := robs(pR, k, err, b)
		key := fmt.Sprintf("%s/s%d/i%d/n%s", g.Name, size, idx, bf.class)
		r.emit(g.Name, fmt.Sprintf("CRead %s %d %s %s", term, n, golen, obs), key, L > 4 && n >= L,
			map[string]any{"type": g.Name, "size": size, "buf": n, "Len": L, "k": k, "err": errText(err), "term": clip(term, 200)})

		in := map[string]any{"value": clip(term, 400), "buf": n}
		if pR {
			c.Count("fail:panic")
			c.Fail(typ+"/panic", "Read() panicked", in, fmt.Sprint(rv), "bytes or an error")
			continue
		}
		success := isEOF(err) && !pL
		// values beyond a one-byte prefix: whatever Read accepts must still be self-consistent
		// (the inner length prefixes match the body), so a wrapped prefix is a failure.
		if !oracle && success && k > 0 && k <= n && typ != "ALPNExtension" {
			c.Count("check:over-limit")
			if k < 4 || int(binary.BigEndian.Uint16(b[2:4])) != k-4 || !innerOK(binary.BigEndian.Uint16(b[0:2]), b[4:k]) {
				c.Count("fail:over-limit")
				c.Fail(typ+"/over-limit", "Read() accepted a value that does not fit its one-byte length prefix and wrote length prefixes that do not match the body",
					in, clip(vh.Hex(b[:k]), 200), "an error, or a body its own grammar accepts strictly")
			}
		}
		if within && !pL {
			if n >= L {
				c.Count("check:len-vs-read")
				if isEOF(err) {
					if k != L {
						c.Count("fail:len-vs-read")
						c.Fail(typ+"/len-vs-read", "Len() differs from the number of bytes Read() writes", in,
							map[string]any{"Len": L, "read": k, "bytes": clip(vh.Hex(b[:min(max(k, 0), n)]), 200)}, L)
					}
				} else if !expectedErr(e, L, err) {
					// diagnostic only: what the same value does with a buffer that is certainly large enough
					var k3 int
					var err3 error
					vh.Recover(func() { k3, err3 = e.Read(make([]byte, L+70000)) })
					c.Count("fail:len-vs-read")
					c.Fail(typ+"/len-vs-read", "Read() into a buffer of at least Len() bytes failed for a value within wire limits", in,
						map[string]any{"Len": L, "read": k, "err": errText(err), "read_into_huge_buffer": k3, "err_huge_buffer": errText(err3)},
						"Len() bytes and io.EOF")
				}
			} else {
				c.Count("check:short-buffer")
				if err != io.ErrShortBuffer || k != 0 || !allZero(b) {
					c.Count("fail:short-buffer")
					c.Fail(typ+"/short-buffer", "Read() into a buffer shorter than Len() must fail with io.ErrShortBuffer and write nothing", in,
						map[string]any{"Len": L, "read": k, "err": errText(err), "buffer": clip(vh.Hex(b), 200)}, "(0, io.ErrShortBuffer), buffer untouched")
				}
			}
			if isEOF(err) && k > 0 && k <= n {
				c.Count("check:header-length")
				if k < 4 || int(binary.BigEndian.Uint16(b[2:4])) != k-4 {
					c.Count("fail:header-length")
					c.Fail(typ+"/header-length", "the extension header's length field differs from the body length", in,
						clip(vh.Hex(b[:k]), 200), k-4)
				} else if typ != "GenericExtension" {
					c.Count("check:inner-length")
					if !innerOK(binary.BigEndian.Uint16(b[0:2]), b[4:k]) {
						c.Count("fail:inner-length")
						c.Fail(typ+"/inner-length", "inner length prefixes do not match the body", in, clip(vh.Hex(b[:k]), 400), "a body its own grammar accepts strictly")
					}
				}
			}
		}

		// ---- B on this value: once, from the exact-size read ----
		if bf.class == "L" && success && k == L && L >= 4 {
			id := binary.BigEndian.Uint16(b[0:2])
			body := append([]byte{}, b[4:L]...)
			if len(body) <= 48 && len(r.pool) < 4096 {
				r.pool = append(r.pool, produced{typ, id, body})
			}
			reals := []bool{false}
			if id == 41 {
				reals = append(reals, true)
			}
			for _, real := range reals {
				if extcoq.FromID(id, real) == nil {
					continue
				}
				wkey := fmt.Sprintf("%s/s%d/i%d/real=%v", g.Name, size, idx, real)
				res := r.writeCase("write/"+g.Name, wkey, real, id, body)
				// the round-trip statement is about bodies the writer's OWN type produced
				if !within || typ == "GenericExtension" {
					continue
				}
				if id == 41 && !real && typ != "FakePreSharedKeyExtension" {
					continue // a UtlsPreSharedKeyExtension body handed to the fake writer: cross-type
				}
				r.roundtripOracle(typ, real, id, append([]byte{}, b[:L]...), res)
			}
		}
	}
}

type wres struct {
	noWriter bool
	wpanic   bool
	werr     error
	lpanic   bool
	L2       int
	rpanic   bool
	k2       int
	err2     error
	b2       []byte // as read (ECH positions NOT masked)
	wtype    string
}

// doWrite: ExtensionFromID(id) [+ PSK substitution], Write(body), then Len() and Read() of the object.
func doWrite(real bool, id uint16, body []byte) (res wres) {
	w := extcoq.FromID(id, real)
	if w == nil {
		res.noWriter = true
		return
	}
	res.wtype = reflect.TypeOf(w).Elem().Name()
	arg := append([]byte{}, body...)
	res.wpanic, _ = vh.Recover(func() { _, res.werr = w.Write(arg) })
	if res.wpanic || res.werr != nil {
		return
	}
	res.lpanic, _ = vh.Recover(func() { res.L2 = w.Len() })
	if res.lpanic || res.L2 < 0 {
		return
	}
	res.b2 = make([]byte, res.L2)
	res.rpanic, _ = vh.Recover(func() { res.k2, res.err2 = w.Read(res.b2) })
	return
}

// writeCase runs doWrite, reports panics and emits the CWrite case.
func (r *runner) writeCase(kind, key string, real bool, id uint16, body []byte) wres {
	c := r.c
	res := doWrite(real, id, body)
	in := map[string]any{"id": id, "real": real, "body": clip(vh.Hex(body), 400)}
	var obs string
	switch {
	case res.noWriter:
		obs = "WErr"
	case res.wpanic:
		obs = "WPanic"
		c.Count("fail:panic")
		c.Fail(res.wtype+"/panic", "Write() panicked", in, "panic", "an error or a value")
	case res.werr != nil:
		obs = "WErr"
	case res.lpanic || res.L2 < 0:
		c.Count("fail:panic")
		c.Fail(res.wtype+"/panic", "Len() panicked (or was negative) on the object Write() produced", in, res.L2, "a length")
		return res
	default:
		if res.rpanic {
			c.Count("fail:panic")
			c.Fail(res.wtype+"/panic", "Read() panicked on the object Write() produced", in, "panic", "bytes or an error")
		}
		if res.L2 > 6000 {
			c.Count("write:too-large-to-emit")
			return res
		}
		shown := res.b2
		if id == 0xfe0d {
			shown = echMask(res.b2) // the model prints zeros where the code draws from crypto/rand
		}
		obs = fmt.Sprintf("(WOk %d %s)", res.L2, robs(res.rpanic, res.k2, res.err2, shown))
	}
	r.emit(kind, fmt.Sprintf("CWrite %s %d %s %s", vh.Bool(real), id, vh.Bytes(body), obs), key,
		strings.HasPrefix(obs, "(WOk") && len(body) > 0,
		map[string]any{"id": id, "real": real, "body": clip(vh.Hex(body), 100), "obs": clip(obs, 200)})
	return res
}

// fixed GREASE ECH bodies: 00 | 0001 0001 | 2a | 0020 <32 bytes> | 000N <N bytes>
func (r *runner) echCorpus() {
	c := r.c
	for _, n := range []int{0, 1, 15, 16, 17, 144} {
		body := []byte{0, 0, 1, 0, 1, 0x2a, 0, 0x20}
		enc := make([]byte, 32)
		c.Rng.Read(enc)
		body = append(body, enc...)
		body = append(body, byte(n>>8), byte(n))
		pl := make([]byte, n)
		c.Rng.Read(pl)
		body = append(body, pl...)
		res := r.writeCase("write/ech-corpus", fmt.Sprintf("ech-corpus/payload%d", n), false, 0xfe0d, body)
		c.Count("check:write-roundtrip")
		want := 4 + len(body)
		switch {
		case res.wpanic || res.lpanic:
			// reported by writeCase
		case res.werr != nil:
			if n >= 16 { // a payload at least as long as the AEAD tag is a valid GREASE ECH body
				c.Count("fail:write-roundtrip")
				c.Fail("GREASEEncryptedClientHelloExtension/write-roundtrip", "Write() rejected a well-formed GREASE ECH body",
					map[string]any{"body": vh.Hex(body), "payload_len": n}, errText(res.werr), "accepted")
			}
		case res.L2 != want:
			c.Count("fail:write-roundtrip")
			c.Fail("GREASEEncryptedClientHelloExtension/write-roundtrip",
				"after Write() of a GREASE ECH body the object does not encode at the same size (payload regenerated at a different length)",
				map[string]any{"body": vh.Hex(body), "payload_len": n}, map[string]any{"Len": res.L2, "read": res.k2}, want)
		}
	}
}

var knownIDs = []uint16{0, 5, 10, 11, 13, 16, 17, 18, 21, 23, 24, 27, 28, 34, 35, 41, 43, 45, 50, 51, 57,
	13172, 17513, 17613, 30031, 30032, 0xfe0d, 0xff01,
	0x0a0a, 0x3a3a, 0xfafa, // GREASE
	4, 44, 65535} // no extension object / no writer

func (r *runner) malformed() {
	c := r.c
	for i := 0; i < c.N; i++ {
		var id uint16
		var body []byte
		mode := i % 3
		if mode != 0 && len(r.pool) == 0 {
			mode = 0
		}
		switch mode {
		case 0:
			id = knownIDs[c.Rng.Intn(len(knownIDs))]
			body = make([]byte, c.Rng.Intn(25))
			c.Rng.Read(body)
			// half of the time give the body a plausible outer shape so the parsers get past the first read
			switch c.Rng.Intn(6) {
			case 0:
				if len(body) >= 2 {
					binary.BigEndian.PutUint16(body, uint16(len(body)-2))
				}
			case 1:
				if len(body) >= 1 {
					body[0] = byte(len(body) - 1)
				}
			case 2:
				if len(body) >= 6 {
					copy(body, []byte{0, 0, byte(1 + c.Rng.Intn(3)), 0, byte(1 + c.Rng.Intn(3))})
				}
			}
		case 1:
			p := r.pool[c.Rng.Intn(len(r.pool))]
			id, body = p.id, append([]byte{}, p.body...)
			if len(body) > 0 {
				body = body[:len(body)-1]
			}
		case 2:
			p := r.pool[c.Rng.Intn(len(r.pool))]
			id, body = p.id, append(append([]byte{}, p.body...), 0)
		}
		real := id == 41 && c.Rng.Intn(2) == 0
		r.writeCase("write/malformed", fmt.Sprintf("malformed/i%d/m%d", i, mode), real, id, body)
	}
}

// compile-time reminder that the PSK types are what id 41 maps to
var _ tls.TLSExtensionWriter = (*tls.FakePreSharedKeyExtension)(nil)

package main

// Call ORDERS on fresh objects. Part A (main.go) always measures an object with Len() before it
// reads it, as MarshalClientHello does; but the property speaks about Len() and Read() of a value,
// not about one particular order of calls, and several types fix state lazily on the first call
// (QUICTransportParametersExtension.marshalResult, GREASEEncryptedClientHelloExtension.init,
// UtlsPreSharedKeyExtension.cachedLength). Here every generator makes IDENTICAL fresh copies of a
// value (same sub-seed) and each copy gets a different first call:
//
//	read-first/short   Read into a buffer shorter than the twin's Len(), THEN Len()
//	read-first/4       Read into 4 bytes (room for the header only), THEN Len()
//	read-first/exact   Read into exactly the twin's Len(), Read again, Len(), Len() again
//	write-read-first   ExtensionFromID(id).Write(body), Read into a short buffer, THEN Len()
//	write-read-exact   ... Write(body), Read into the twin's Len(), THEN Len()
//
// The length the object reports AFTER the calls (its lazy state is fixed by then) is what the
// first Read is judged against, so values whose size is drawn at first use (GREASE ECH payload
// length, GREASE transport parameter ids) need no special treatment. Every observation is also
// emitted as a CRead case: the model must explain it from the state the object ended up in.

import (
	"bytes"
	"encoding/binary"
	"fmt"
	"io"
	"math/rand"

	tls "github.com/refraction-networking/utls"
	"verif/harness/extcoq"
	"verif/harness/vh"
)

type firstRead struct {
	n      int
	k      int
	err    error
	b      []byte
	pan    bool
	panVal any
}

func readInto(e tls.TLSExtension, n int) firstRead {
	if n < 0 {
		n = 0
	}
	fr := firstRead{n: n, b: make([]byte, n)}
	fr.pan, fr.panVal = vh.Recover(func() { fr.k, fr.err = e.Read(fr.b) })
	return fr
}

func safeLen(e tls.TLSExtension) (L int, panicked bool) {
	panicked, _ = vh.Recover(func() { L = e.Len() })
	return
}

// judge applies the property text to one Read whose object reports Len() = L afterwards, emits
// the observation as a CRead case and returns whether the read succeeded with exactly L bytes.
func (r *runner) judge(kind, key, typ, order string, e tls.TLSExtension, fr firstRead, oracle bool) bool {
	c := r.c
	L, pL := safeLen(e)
	L2, pL2 := safeLen(e)
	term, ok := extcoq.ExtTerm(e)
	in := map[string]any{"order": order, "value": clip(term, 400), "buf": fr.n}
	if fr.pan {
		c.Count("fail:panic")
		c.Fail(typ+"/panic", "Read() panicked ("+order+")", in, fmt.Sprint(fr.panVal), "bytes or an error")
	}
	if pL || pL2 {
		c.Count("fail:panic")
		c.Fail(typ+"/panic", "Len() panicked ("+order+")", in, "panic", "a length")
		return false
	}
	if ok && r.firstTerm != "" {
		// edited object: the model gets the value as first encoded and the fields as they are now
		r.emit(kind, fmt.Sprintf("CReadObj %s %s %d (Some %d) %s", r.firstTerm, term, fr.n, L, robs(fr.pan, fr.k, fr.err, fr.b)), key,
			L > 4, map[string]any{"order": order, "type": typ, "buf": fr.n, "Len": L, "k": fr.k, "err": errText(fr.err)})
	} else if ok {
		r.emit(kind, fmt.Sprintf("CRead %s %d (Some %d) %s", term, fr.n, L, robs(fr.pan, fr.k, fr.err, fr.b)), key,
			L > 4, map[string]any{"order": order, "type": typ, "buf": fr.n, "Len": L, "k": fr.k, "err": errText(fr.err)})
	}
	if fr.pan || !oracle || !withinLimits(e) {
		return false
	}
	c.Count("check:order")
	scenario := ""
	if r.firstTerm != "" {
		scenario = "after-edit/" // edits.go: keyed apart from the single-pass rules
		in["first_encoded_as"] = clip(r.firstTerm, 300)
	}
	fail := func(rule, what string, got, want any) {
		c.Count("fail:" + scenario + rule)
		c.Fail(typ+"/"+scenario+rule, what+" ["+order+"]", in, got, want)
	}
	got := map[string]any{"Len_after": L, "read": fr.k, "err": errText(fr.err), "bytes": clip(vh.Hex(fr.b[:min(max(fr.k, 0), fr.n)]), 200)}
	if L2 != L {
		fail("len-vs-read", "two consecutive Len() calls disagree", map[string]any{"first": L, "second": L2}, "equal")
	}
	if fr.k < 0 || fr.k > fr.n {
		fail("short-buffer", "Read() reports more bytes than the buffer holds", got, "0 <= n <= len(b)")
		return false
	}
	if fr.n < L {
		if fr.err != io.ErrShortBuffer || fr.k != 0 || !allZero(fr.b) {
			fail("short-buffer", "Read() into a buffer shorter than Len() must fail with io.ErrShortBuffer and write nothing, whatever was called before", got, "(0, io.ErrShortBuffer), buffer untouched")
		}
		return false
	}
	if !isEOF(fr.err) {
		if !expectedErr(e, L, fr.err) {
			fail("len-vs-read", "Read() into a buffer of at least Len() bytes failed for a value within wire limits", got, "Len() bytes and io.EOF")
		}
		return false
	}
	if fr.k != L {
		fail("len-vs-read", "Len() differs from the number of bytes Read() writes", got, L)
		return false
	}
	if L > 0 {
		if L < 4 || int(binary.BigEndian.Uint16(fr.b[2:4])) != L-4 {
			fail("header-length", "the extension header's length field differs from the body length", got, L-4)
			return false
		}
		if typ != "GenericExtension" && !innerOK(binary.BigEndian.Uint16(fr.b[0:2]), fr.b[4:L]) {
			fail("inner-length", "inner length prefixes do not match the body", got, "a body its own grammar accepts strictly")
			return false
		}
	}
	return true
}

func (r *runner) callOrders() {
	c := r.c
	for _, g := range extcoq.Generators() {
		typ := typeOf(g.Name)
		sizes := []int{2, 8 + c.Rng.Intn(8), 16 + c.Rng.Intn(24)}
		if constantTypes[g.Name] {
			sizes = sizes[:1]
		}
		for idx, size := range sizes {
			sub := c.Rng.Int63()
			fresh := func() tls.TLSExtension { return g.Make(rand.New(rand.NewSource(sub)), size) }
			kind := "order/" + g.Name
			key := func(order string) string { return fmt.Sprintf("order/%s/i%d/%s", g.Name, idx, order) }

			// the twin only proposes buffer sizes; nothing is judged against its length
			Lt, pt := safeLen(fresh())
			if pt {
				continue // reported by part A for the same generator
			}
			if Lt > 0 {
				e := fresh()
				r.judge(kind, key("read-first-short"), typ, "Read(Len-1) before Len()", e, readInto(e, Lt-1), true)
			}
			if Lt > 5 {
				e := fresh()
				r.judge(kind, key("read-first-4"), typ, "Read(4 bytes) before Len()", e, readInto(e, 4), true)
			}
			e := fresh()
			fr := readInto(e, Lt)
			fr2 := readInto(e, Lt) // the same object again
			full := r.judge(kind, key("read-first-exact"), typ, "Read(Len) before Len()", e, fr, true)
			if full && !(fr2.k == fr.k && fr2.err == fr.err && bytes.Equal(fr2.b, fr.b)) && !fr2.pan {
				c.Count("fail:len-vs-read")
				c.Fail(typ+"/len-vs-read", "a second Read() of the same object differs from the first",
					map[string]any{"value": clip(fmt.Sprint(e), 200), "buf": Lt},
					map[string]any{"read": fr2.k, "err": errText(fr2.err), "bytes": clip(vh.Hex(fr2.b), 200)},
					map[string]any{"read": fr.k, "bytes": clip(vh.Hex(fr.b), 200)})
			}
			c.Count("check:read-twice")

			// Write on a fresh object, then Read without Len()
			if !full || fr.k < 4 || typ == "GenericExtension" {
				continue
			}
			id := binary.BigEndian.Uint16(fr.b[0:2])
			body := append([]byte{}, fr.b[4:fr.k]...)
			written := func() tls.TLSExtensionWriter {
				w := extcoq.FromID(id, false)
				if w == nil {
					return nil
				}
				var werr error
				if p, _ := vh.Recover(func() { _, werr = w.Write(append([]byte{}, body...)) }); p || werr != nil {
					return nil // panics and refusals are part B's business
				}
				return w
			}
			wt := written()
			if wt == nil {
				continue
			}
			Lw, pw := safeLen(wt)
			if pw {
				continue
			}
			wtyp := typ
			if id == 41 {
				wtyp = "FakePreSharedKeyExtension"
			}
			// a UtlsPreSharedKeyExtension body may carry binders FakePreSharedKeyExtension refuses to
			// serialise: withinLimits() inside judge drops the oracle for those
			if Lw > 0 {
				if w := written(); w != nil {
					r.judge("order/write/"+g.Name, key("write-read-first-short"), wtyp, "Write(body), Read(Len-1) before Len()", w, readInto(w, Lw-1), true)
				}
			}
			if w := written(); w != nil {
				r.judge("order/write/"+g.Name, key("write-read-first-exact"), wtyp, "Write(body), Read(Len) before Len()", w, readInto(w, Lw), true)
			}
		}
	}
}

package main

// Go-side oracles for C08, written from the property text ("Len() equals the number of bytes
// Read() writes, the inner length prefixes match the body, Read() fails with io.ErrShortBuffer,
// writing nothing usable, on any shorter buffer; decoding a body produced by Read() and encoding
// again reproduces the same bytes, up to documented normalisations"). Nothing here uses the model.

import (
	"bytes"
	"encoding/binary"
	"io"
	"strings"

	tls "github.com/refraction-networking/utls"
	"verif/harness/vh"
)

func allZero(b []byte) bool {
	for _, x := range b {
		if x != 0 {
			return false
		}
	}
	return true
}

// withinLimits: the value is one the wire format can carry. The generators clamp everything
// except FakePreSharedKeyExtension binders, which must have the size of a TLS 1.3 hash.
func withinLimits(e tls.TLSExtension) bool {
	if x, ok := e.(*tls.FakePreSharedKeyExtension); ok {
		for _, b := range x.Binders {
			if len(b) != 32 && len(b) != 48 {
				return false
			}
		}
	}
	return true
}

// expectedErr: documented refusals that are not io.EOF although the buffer is large enough:
// a PSK extension with nothing to send and OmitEmptyPsk unset reports ErrEmptyPsk (and Len() is 0).
func expectedErr(e tls.TLSExtension, L int, err error) bool {
	if err != tls.ErrEmptyPsk || L != 0 {
		return false
	}
	switch x := e.(type) {
	case *tls.FakePreSharedKeyExtension:
		return !x.OmitEmptyPsk && (len(x.Identities) == 0 || len(x.Binders) == 0)
	case *tls.UtlsPreSharedKeyExtension:
		return !x.OmitEmptyPsk
	}
	return false
}

// ---- strict, independent parsers of the extension bodies ----

type rd struct {
	b   []byte
	bad bool
}

func (r *rd) take(n int) []byte {
	if r.bad || n < 0 || n > len(r.b) {
		r.bad = true
		return nil
	}
	out := r.b[:n]
	r.b = r.b[n:]
	return out
}
func (r *rd) u8() int {
	x := r.take(1)
	if x == nil {
		return -1
	}
	return int(x[0])
}
func (r *rd) u16() int {
	x := r.take(2)
	if x == nil {
		return -1
	}
	return int(x[0])<<8 | int(x[1])
}
func (r *rd) varint() (uint64, bool) {
	if r.bad || len(r.b) == 0 {
		r.bad = true
		return 0, false
	}
	n := 1 << (r.b[0] >> 6)
	x := r.take(n)
	if x == nil {
		return 0, false
	}
	v := uint64(x[0] & 0x3f)
	for _, y := range x[1:] {
		v = v<<8 | uint64(y)
	}
	return v, true
}
func (r *rd) rest() int  { return len(r.b) }
func (r *rd) done() bool { return !r.bad && len(r.b) == 0 }

// innerOK: every inner length prefix of the body of extension `id` matches what follows it, exactly.
func innerOK(id uint16, body []byte) bool {
	r := &rd{b: body}
	switch id {
	case 0: // server_name: list(u16) of one entry: type 0, name(u16)
		if r.u16() != r.rest() {
			return false
		}
		if r.u8() != 0 {
			return false
		}
		l := r.u16()
		return l > 0 && l == r.rest() && !r.bad
	case 5: // status_request: 01, responder ids(u16), extensions(u16)
		if r.u8() != 1 {
			return false
		}
		r.take(r.u16())
		r.take(r.u16())
		return r.done()
	case 10, 13, 50, 34: // u16 list of u16s
		l := r.u16()
		return !r.bad && l == r.rest() && l%2 == 0
	case 11, 45, 0xff01: // u8-prefixed bytes
		l := r.u8()
		return !r.bad && l == r.rest()
	case 16, 17513, 17613: // u16 list of u8-prefixed strings
		if r.u16() != r.rest() || r.bad {
			return false
		}
		for r.rest() > 0 && !r.bad {
			r.take(r.u8())
		}
		return r.done()
	case 17:
		return bytes.Equal(body, []byte{0, 7, 2, 0, 4, 0, 0, 0, 0})
	case 27, 43: // u8 list of u16s
		l := r.u8()
		return !r.bad && l == r.rest() && l%2 == 0
	case 51: // u16 list of (group u16, data(u16))
		if r.u16() != r.rest() || r.bad {
			return false
		}
		for r.rest() > 0 && !r.bad {
			r.u16()
			r.take(r.u16())
		}
		return r.done()
	case 44:
		l := r.u16()
		return !r.bad && l == r.rest()
	case 24: // major, minor, params(u8)
		r.take(2)
		l := r.u8()
		return !r.bad && l == r.rest()
	case 28:
		return len(body) == 2
	case 18, 23, 13172, 30031, 30032: // always sent empty by a client
		return len(body) == 0
	case 41:
		ids := &rd{b: r.take(r.u16())}
		if r.bad {
			return false
		}
		for ids.rest() > 0 && !ids.bad {
			ids.take(ids.u16())
			ids.take(4)
		}
		if !ids.done() {
			return false
		}
		if r.u16() != r.rest() || r.bad {
			return false
		}
		for r.rest() > 0 && !r.bad {
			r.take(r.u8())
		}
		return r.done()
	case 57: // sequence of (varint id, varint length, value)
		for r.rest() > 0 && !r.bad {
			r.varint()
			l, ok := r.varint()
			if !ok || l > uint64(r.rest()) {
				return false
			}
			r.take(int(l))
		}
		return r.done()
	case 0xfe0d: // type, kdf, aead, config id, enc(u16), payload(u16)
		r.take(1 + 2 + 2 + 1)
		r.take(r.u16())
		l := r.u16()
		return !r.bad && l == r.rest()
	}
	return true
}

// belowMin: the body is below the documented minimum of its grammar (an empty vector where the
// RFC requires <2..> / <1..>, an empty protocol name, an empty key exchange): Write may refuse it.
func belowMin(id uint16, body []byte) bool {
	r := &rd{b: body}
	switch id {
	case 10, 13, 50, 34:
		return r.u16() == 0
	case 11, 43:
		return r.u8() == 0
	case 16, 17513, 17613:
		if r.u16() == 0 {
			return true
		}
		for r.rest() > 0 && !r.bad {
			l := r.u8()
			if l == 0 {
				return true
			}
			r.take(l)
		}
	case 51:
		r.u16()
		for r.rest() > 0 && !r.bad {
			r.u16()
			l := r.u16()
			if l == 0 {
				return true
			}
			r.take(l)
		}
	}
	return false
}

func isGrease(v uint16) bool { return v>>8 == v&0xff && v&0x0f == 0x0a }

func unGrease(v uint16) uint16 {
	if isGrease(v) {
		return 0x0a0a
	}
	return v
}

// echMask zeroes, in a full GREASE ECH extension, what the code regenerates from crypto/rand:
// the config id byte, the encapsulated key bytes and the payload bytes (the sizes stay).
func echMask(ext []byte) []byte {
	out := append([]byte{}, ext...)
	if len(out) < 12 {
		return out
	}
	out[9] = 0
	encLen := int(binary.BigEndian.Uint16(out[10:12]))
	p := 12
	for i := 0; i < encLen && p < len(out); i++ {
		out[p] = 0
		p++
	}
	p += 2 // payload length field
	for ; p < len(out); p++ {
		out[p] = 0
	}
	return out
}

var knownWriterIDs = map[uint16]bool{0: true, 5: true, 10: true, 11: true, 13: true, 16: true, 17: true, 18: true, 21: true,
	23: true, 24: true, 27: true, 28: true, 34: true, 35: true, 41: true, 43: true, 45: true, 50: true, 51: true,
	13172: true, 17513: true, 17613: true, 30031: true, 30032: true, 0xfe0d: true, 0xff01: true}

// normalised: what encoding again must give for the extension bytes `orig` (header included),
// per the property's list of documented normalisations. empty = the object encodes as nothing.
func normalised(id uint16, orig []byte) []byte {
	out := append([]byte{}, orig...)
	switch {
	case id == 10: // GREASE curves -> placeholder
		for i := 6; i+1 < len(out); i += 2 {
			binary.BigEndian.PutUint16(out[i:], unGrease(binary.BigEndian.Uint16(out[i:])))
		}
	case id == 43: // GREASE versions -> placeholder
		for i := 5; i+1 < len(out); i += 2 {
			binary.BigEndian.PutUint16(out[i:], unGrease(binary.BigEndian.Uint16(out[i:])))
		}
	case id == 51: // GREASE groups -> placeholder (data kept); other groups keep the group, data dropped
		var shares []byte
		r := &rd{b: orig[6:]}
		for r.rest() > 0 && !r.bad {
			g := unGrease(uint16(r.u16()))
			d := r.take(r.u16())
			if g != 0x0a0a {
				d = nil
			}
			shares = append(shares, byte(g>>8), byte(g), byte(len(d)>>8), byte(len(d)))
			shares = append(shares, d...)
		}
		out = []byte{0, 51, byte((len(shares) + 2) >> 8), byte(len(shares) + 2), byte(len(shares) >> 8), byte(len(shares))}
		out = append(out, shares...)
	case id == 0, id == 21: // SNI name dropped; padding recomputed by policy: nothing until then
		return nil
	case id == 35: // ticket contents dropped
		return []byte{0, 35, 0, 0}
	case id == 0xff01: // body ignored: the initial-handshake form
		return []byte{0xff, 0x01, 0, 1, 0}
	case id == 0xfe0d:
		return echMask(orig)
	case !knownWriterIDs[id] && isGrease(id): // GREASE extension id -> placeholder, body kept
		out[0], out[1] = 0x0a, 0x0a
	}
	return out
}

// roundtripOracle: orig are the bytes Read() produced (header included); res what Write(body) and
// re-encoding gave.
func (r *runner) roundtripOracle(typ string, real bool, id uint16, orig []byte, res wres) {
	c := r.c
	c.Count("check:write-roundtrip")
	in := map[string]any{"bytes": clip(vh.Hex(orig), 600), "real_psk": real}
	key := typ + "/write-roundtrip"
	fail := func(what string, got, want any) {
		c.Count("fail:write-roundtrip")
		c.Fail(key, what, in, got, want)
	}
	if res.wpanic || res.lpanic || res.rpanic {
		return // reported as <type>/panic by writeCase
	}
	if res.werr != nil {
		if !belowMin(id, orig[4:]) {
			fail("Write() rejected a body that Read() produced", errText(res.werr), "accepted")
		}
		return
	}
	got := map[string]any{"Len": res.L2, "read": res.k2, "err": errText(res.err2), "bytes": clip(vh.Hex(res.b2), 200)}
	if id == 41 && real { // real PSK: body ignored, nothing to send until a session is loaded
		if res.L2 != 0 || res.k2 != 0 || !(isEOF(res.err2) || res.err2 == tls.ErrEmptyPsk) {
			fail("the real PSK extension must ignore the body", got, "Len 0, nothing read")
		}
		return
	}
	want := normalised(id, orig)
	b2 := res.b2
	if id == 0xfe0d {
		b2 = echMask(b2)
	}
	if !isEOF(res.err2) || res.k2 != res.L2 || res.L2 != len(want) || !bytes.Equal(b2[:min(max(res.k2, 0), len(b2))], want) {
		what := "decoding a body produced by Read() and encoding again does not reproduce the bytes (up to the documented normalisations)"
		if strings.HasPrefix(typ, "GREASEEncrypted") {
			what += "; for GREASE ECH: config id, key and payload masked, sizes must be kept"
		}
		fail(what, got, map[string]any{"Len": len(want), "bytes": clip(vh.Hex(want), 600)})
	}
}

var _ = io.EOF

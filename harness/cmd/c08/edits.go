package main

// Encode -> EDIT exported fields -> encode again, on the same object. The property quantifies
// over every field value, and an extension object is mutable: whatever a type froze when it was
// first measured or read (QUICTransportParametersExtension.marshalResult,
// UtlsPreSharedKeyExtension.cachedLength, the once-state of GREASEEncryptedClientHelloExtension)
// must not make Len() and Read() disagree afterwards. For EVERY type: build a value, encode it
// once (variant "len+read": Len() and Read(); variant "len": Len() only; variant "read": Read()
// only), overwrite all its exported fields with those of a second, independently generated value
// of the same type (reflection, no per-type code), then judge Len()/Read() again with the property
// text: Read(Len-1) must be refused, Read(Len) must write Len bytes with matching prefixes, a
// second Len()/Read() must agree with the first.

import (
	"fmt"
	"math/rand"
	"reflect"

	tls "github.com/refraction-networking/utls"
	"verif/harness/extcoq"
)

// copyExported overwrites every exported (settable) field of *dst with the one of *src.
func copyExported(dst, src tls.TLSExtension) (copied int) {
	d, s := reflect.ValueOf(dst), reflect.ValueOf(src)
	if d.Kind() != reflect.Ptr || s.Kind() != reflect.Ptr || d.Type() != s.Type() {
		return 0
	}
	d, s = d.Elem(), s.Elem()
	if d.Kind() != reflect.Struct {
		return 0
	}
	for i := 0; i < d.NumField(); i++ {
		if d.Type().Field(i).PkgPath != "" || !d.Field(i).CanSet() {
			continue
		}
		d.Field(i).Set(s.Field(i))
		copied++
	}
	return
}

func (r *runner) editAfterEncode() {
	c := r.c
	defer func() { r.firstTerm = "" }()
	for _, g := range extcoq.Generators() {
		typ := typeOf(g.Name)
		if constantTypes[g.Name] && typ != "FakeChannelIDExtension" && typ != "FakeRecordSizeLimitExtension" {
			continue // no fields
		}
		for idx, variant := range []string{"len+read", "len", "read"} {
			size1, size2 := 1+c.Rng.Intn(20), 1+c.Rng.Intn(20)
			e := g.Make(rand.New(rand.NewSource(c.Rng.Int63())), size1)
			donor := g.Make(rand.New(rand.NewSource(c.Rng.Int63())), size2)

			// first encoding
			L0, p0 := 0, false
			if variant != "read" {
				L0, p0 = safeLen(e)
			} else {
				L0, p0 = safeLen(g.Make(rand.New(rand.NewSource(1)), size1)) // only a buffer size proposal
				L0 += 64
			}
			if p0 {
				continue
			}
			if variant != "len" {
				readInto(e, L0)
			}
			first, ok := extcoq.ExtTerm(e) // (calls Len(): the object is measured in every variant from here on)
			if !ok {
				continue
			}
			if copyExported(e, donor) == 0 {
				continue
			}
			c.Count("check:edit")

			// second encoding, judged against what the object reports now
			L1, p1 := safeLen(e)
			if p1 {
				c.Count("fail:panic")
				c.Fail(typ+"/panic", "Len() panicked after the exported fields were edited", map[string]any{"first": clip(first, 300)}, "panic", "a length")
				continue
			}
			kind := "edit/" + g.Name
			key := func(what string) string { return fmt.Sprintf("edit/%s/i%d/%s/%s", g.Name, idx, variant, what) }
			order := "encode (" + variant + "), edit exported fields, "
			r.firstTerm = first
			if L1 > 0 {
				r.judge(kind, key("short"), typ, order+"Read(Len-1)", e, readInto(e, L1-1), true)
			}
			r.judge(kind, key("exact"), typ, order+"Read(Len)", e, readInto(e, L1), true)
			r.firstTerm = ""
		}
	}
}

package main

import (
	"fmt"
	"math/rand"
	"net"
	"strings"
	"time"

	tls "github.com/refraction-networking/utls"
	"verif/harness/hs"
	"verif/harness/vh"
)

// prime performs one complete handshake (and reads one byte of application data, so that TLS 1.3
// NewSessionTicket messages are processed) to put a session for this fingerprint into cfg.ClientSessionCache.
func prime(id tls.ClientHelloID, cfg, serverCfg *tls.Config) bool {
	ln, err := net.Listen("tcp", "127.0.0.1:0")
	if err != nil {
		return false
	}
	defer ln.Close()
	done := make(chan struct{})
	go func() {
		defer close(done)
		conn, err := ln.Accept()
		if err != nil {
			return
		}
		defer conn.Close()
		conn.SetDeadline(time.Now().Add(5 * time.Second))
		sc := tls.VerifScriptedServer(conn, serverCfg, &tls.VerifServerScript{})
		if sc.Handshake() == nil {
			sc.Write([]byte("t"))
			buf := make([]byte, 1)
			sc.Read(buf) // wait for the client to close
		}
	}()
	raw, err := net.DialTimeout("tcp", ln.Addr().String(), 5*time.Second)
	if err != nil {
		return false
	}
	raw.SetDeadline(time.Now().Add(5 * time.Second))
	ok := false
	vh.Recover(func() {
		uc := tls.UClient(raw, cfg, id)
		if uc.Handshake() == nil {
			buf := make([]byte, 1)
			if n, _ := uc.Read(buf); n == 1 {
				ok = true
			}
		}
		uc.Close()
	})
	raw.Close()
	<-done
	return ok
}

// runResumption: the same histories on a connection that RESUMES - a first connection fills the session
// cache, the observed one loads the session in its first BuildHandshakeState (pre_shared_key with binders
// for TLS 1.3, session_ticket for TLS 1.2), is then edited, and Handshake re-marshals the hello and recomputes
// the binders over it.  Every predefined fingerprint once against a TLS 1.3 and once against a TLS 1.2
// server; the fingerprints carrying a UtlsPreSharedKeyExtension a few more times.
func runResumption(c *vh.Ctx, ps []hs.Parrot, maxOps int) {
	type plan struct {
		p   hs.Parrot
		max uint16
		k   int
	}
	var plans []plan
	for _, p := range ps {
		n := 1
		if strings.Contains(p.Name, "PSK") {
			n = 4
			if c.Tier != "quick" {
				n = 24
			}
		}
		for k := 0; k < n; k++ {
			plans = append(plans, plan{p, tls.VersionTLS13, k})
		}
		if c.Tier != "quick" || len(plans)%3 == int(c.Seed%3) {
			plans = append(plans, plan{p, tls.VersionTLS12, 0})
		}
	}
	for i, pl := range plans {
		r := rand.New(rand.NewSource(c.Seed*7919 + int64(i)*257))
		serverCfg := pki.ServerConfig()
		serverCfg.SessionTicketsDisabled = false
		serverCfg.MaxVersion = pl.max
		cfg := &tls.Config{ServerName: hs.ServerName, InsecureSkipVerify: true, OmitEmptyPsk: true,
			ClientSessionCache: tls.NewLRUClientSessionCache(4), Rand: seedReader{rand.New(rand.NewSource(r.Int63()))}}
		if !prime(pl.p.ID, cfg, serverCfg) {
			c.Count("prime-failed")
			continue
		}
		rs := runSpec{name: fmt.Sprintf("%s/resume-%x-%d", pl.p.Name, pl.max, pl.k), id: pl.p.ID, nops: 1 + r.Intn(maxOps),
			cfg: cfg, serverCfg: serverCfg, resume: true}
		runOne(c, r, rs)
	}
}

// c01: runner and Go-side oracle for property C01 ("The ClientHello on the wire is exactly the
// hello the caller built and inspected").
//
// A real UConn per run, over a recording net.Conn (harness/hs.RecConn) on loopback TCP, against the
// scripted server of /repo/verif_server.go (honest, or sending a HelloRetryRequest with a selected group
// and/or a cookie).  After the first BuildHandshakeState a generated list of public calls is made
// (SetClientRandom, SetSNI, edits of uconn.Extensions, Hello.CipherSuites, Hello.SessionId, further
// BuildHandshakeState calls), then Handshake.  Observed: the ClientHello handshake messages in the
// recorded byte stream and Hello.Raw before/after.
//
// Go-side oracle (needs no model): first wire hello == Hello.Raw of a BuildHandshakeState made right
// before Handshake; Hello.Raw after Handshake == last wire hello; every edit visible in the parsed first
// wire hello.  Coq case: the same history replayed on Model/UConn.v, byte for byte.
package main

import (
	"bytes"
	"fmt"
	"math/rand"
	"net"
	"strings"
	"time"

	tls "github.com/refraction-networking/utls"
	"verif/harness/extcoq"
	"verif/harness/hs"
	"verif/harness/vh"
)

func main() { vh.Main(map[string]vh.Suite{"C01": {Corr: "Corr.C01Corr", Run: run}}) }

type seedReader struct{ r *rand.Rand }

func (s seedReader) Read(b []byte) (int, error) { return s.r.Read(b) }

func words(b []byte) string {
	var sb strings.Builder
	fmt.Fprintf(&sb, "%d [", len(b))
	for i := 0; i < len(b); i += 7 {
		j := i + 7
		if j > len(b) {
			j = len(b)
		}
		var w uint64
		for _, x := range b[i:j] {
			w = w<<8 | uint64(x)
		}
		if i > 0 {
			sb.WriteByte(';')
		}
		fmt.Fprintf(&sb, "%d", w)
	}
	sb.WriteString("]%uint63")
	return sb.String()
}

// ---- minimal wire parser (type, body) ----
type wext struct {
	id   uint16
	body []byte
}
type whello struct {
	random, sid []byte
	suites      []uint16
	exts        []wext
}

func parseHello(m []byte) (*whello, bool) {
	if len(m) < 4+2+32+1 || m[0] != 1 || int(m[1])<<16|int(m[2])<<8|int(m[3]) != len(m)-4 {
		return nil, false
	}
	p := m[4:]
	w := &whello{random: p[2:34]}
	p = p[34:]
	n := int(p[0])
	if len(p) < 1+n+2 {
		return nil, false
	}
	w.sid, p = p[1:1+n], p[1+n:]
	n = int(p[0])<<8 | int(p[1])
	if len(p) < 2+n+1 || n%2 != 0 {
		return nil, false
	}
	for i := 0; i < n; i += 2 {
		w.suites = append(w.suites, uint16(p[2+i])<<8|uint16(p[3+i]))
	}
	p = p[2+n:]
	n = int(p[0])
	if len(p) < 1+n {
		return nil, false
	}
	p = p[1+n:]
	if len(p) == 0 {
		return w, true
	}
	if len(p) < 2 || int(p[0])<<8|int(p[1]) != len(p)-2 {
		return nil, false
	}
	p = p[2:]
	for len(p) > 0 {
		if len(p) < 4 {
			return nil, false
		}
		id := uint16(p[0])<<8 | uint16(p[1])
		n := int(p[2])<<8 | int(p[3])
		if len(p) < 4+n {
			return nil, false
		}
		w.exts = append(w.exts, wext{id, p[4 : 4+n]})
		p = p[4+n:]
	}
	return w, true
}

func (w *whello) find(id uint16) ([]byte, bool) {
	for _, e := range w.exts {
		if e.id == id {
			return e.body, true
		}
	}
	return nil, false
}

// ---- rendering extension objects for the Coq case ----
func extTerm(e tls.TLSExtension) (string, bool) {
	switch x := e.(type) {
	case *tls.SNIExtension:
		t, ok := extcoq.ExtTerm(e)
		return "XE " + t, ok
	case *tls.KeyShareExtension:
		it := make([]string, len(x.KeyShares))
		for i, ks := range x.KeyShares {
			it[i] = fmt.Sprintf("KS %d %s", uint16(ks.Group), words(ks.Data))
		}
		return "XKS " + vh.List(it), true
	}
	l := e.Len()
	_, isPad := e.(*tls.UtlsPaddingExtension)
	_, isUPSK := e.(*tls.UtlsPreSharedKeyExtension)
	if l <= 100 || isPad || isUPSK {
		t, ok := extcoq.ExtTerm(e)
		return "XE " + t, ok
	}
	// opaque: exactly what its Read emits
	b := make([]byte, l)
	n, _ := e.Read(b)
	if n != l || l < 4 {
		return "", false
	}
	return fmt.Sprintf("XGen %d %s", uint16(b[0])<<8|uint16(b[1]), words(b[4:])), true
}

// ---- one run ----
type expect struct {
	what string // random | sni | sid | suites | insert | remove | edit
	val  []byte
	id   uint16
	u16s []uint16
}

type runSpec struct {
	name string
	id   tls.ClientHelloID
	hrr  int // 0 plain, 1 HRR group+cookie, 2 HRR cookie only, 3 HRR group only
	nops int
	// resumption runs: the client Config (with a primed session cache) and the server Config that issued the ticket;
	// only calls that leave the extension list in place (the session extensions are bound to the loaded session)
	cfg       *tls.Config
	serverCfg *tls.Config
	resume    bool
}

var pki = hs.SharedPKI()

func safeToTouch(e tls.TLSExtension) bool {
	switch e.(type) {
	case *tls.SCTExtension, *tls.StatusRequestExtension, *tls.ApplicationSettingsExtension, *tls.ApplicationSettingsExtensionNew,
		*tls.FakeRecordSizeLimitExtension, *tls.FakeDelegatedCredentialsExtension, *tls.FakeTokenBindingExtension,
		*tls.FakeChannelIDExtension, *tls.NPNExtension, *tls.RenegotiationInfoExtension, *tls.ExtendedMasterSecretExtension:
		return true
	}
	return false
}

func isPSK(e tls.TLSExtension) bool {
	_, ok := e.(tls.PreSharedKeyExtension)
	return ok
}

func serverGroups() []tls.CurveID { return []tls.CurveID{tls.X25519, tls.CurveP256, tls.CurveP384} }

func runOne(c *vh.Ctx, r *rand.Rand, rs runSpec) {
	key := rs.name
	ln, err := net.Listen("tcp", "127.0.0.1:0")
	if err != nil {
		c.Count("listen-error")
		return
	}
	defer ln.Close()
	script := &tls.VerifServerScript{}
	cookie := []byte(nil)
	if rs.hrr == 1 || rs.hrr == 2 {
		cookie = []byte(fmt.Sprintf("cookie-%d-%s", r.Intn(1000), strings.Repeat("c", r.Intn(20))))
		script.HRRCookie = cookie
	}
	if rs.hrr == 1 || rs.hrr == 3 {
		// a group the client lists but sent no share for, chosen from the hello itself
		script.OnClientHello = func(raw []byte) {
			w, err := hs.ParseClientHello(raw)
			if err != nil {
				return
			}
			for _, g := range serverGroups() {
				if hs.ContainsU16(w.SupportedGroups, uint16(g)) && !hs.ContainsU16(w.KeyShareGroups, uint16(g)) {
					script.HRRGroup = g
					return
				}
			}
			if script.HRRCookie == nil {
				script.HRRCookie = []byte("fallback-cookie")
			}
		}
	}
	done := make(chan struct{})
	go func() {
		defer close(done)
		conn, err := ln.Accept()
		if err != nil {
			return
		}
		defer conn.Close()
		conn.SetDeadline(time.Now().Add(5 * time.Second))
		scfg := rs.serverCfg
		if scfg == nil {
			scfg = pki.ServerConfig()
		}
		sc := tls.VerifScriptedServer(conn, scfg, script)
		if sc.Handshake() == nil {
			sc.Close()
		}
	}()
	raw, err := net.DialTimeout("tcp", ln.Addr().String(), 5*time.Second)
	if err != nil {
		c.Count("dial-error")
		return
	}
	rc := &hs.RecConn{Conn: raw}
	defer rc.Close()
	rc.SetDeadline(time.Now().Add(5 * time.Second))
	cfg := rs.cfg
	if cfg == nil {
		cfg = &tls.Config{ServerName: hs.ServerName, InsecureSkipVerify: true, OmitEmptyPsk: true,
			Rand: seedReader{rand.New(rand.NewSource(r.Int63()))}}
	}
	uc := tls.UClient(rc, cfg, rs.id)
	if err := uc.BuildHandshakeState(); err != nil {
		c.Count("first-build-error")
		rc.Close()
		<-done
		return
	}
	h := uc.HandshakeState.Hello
	sb := make([]byte, 0, 2*len(h.CipherSuites))
	for _, s := range h.CipherSuites {
		sb = append(sb, byte(s>>8), byte(s))
	}
	hdr := fmt.Sprintf("%d %s %s %s %s", h.Vers, words(h.Random), words(h.SessionId), words(sb), words(h.CompressionMethods))
	var exts []string
	renderable := true
	for _, e := range uc.Extensions {
		t, ok := extTerm(e)
		if !ok {
			renderable = false
			break
		}
		exts = append(exts, t)
	}
	// ---- the calls ----
	var ops []string
	var descr []string
	var exps []expect
	fresh, lastBuilt := true, append([]byte(nil), h.Raw...)
	dropID := func(id uint16) { // a later edit of the same extension type supersedes the expectation
		out := exps[:0]
		for _, e := range exps {
			if !((e.what == "insert" || e.what == "edit" || e.what == "remove") && e.id == id) {
				out = append(out, e)
			}
		}
		exps = out
	}
	drop := func(what string) { // a later call of the same kind supersedes the expectation
		out := exps[:0]
		for _, e := range exps {
			if e.what != what {
				out = append(out, e)
			}
		}
		exps = out
	}
	for k := 0; k < rs.nops; k++ {
		n := len(uc.Extensions)
		opk := r.Intn(9)
		if rs.resume && (opk == 1 || opk == 4 || opk == 5) {
			opk = []int{0, 2, 3}[opk%3] // no SetSNI (it is the cache key), no insert / remove
		}
		switch opk {
		case 0:
			rnd := make([]byte, []int{32, 32, 32, 32, 31, 33, 0}[r.Intn(7)])
			r.Read(rnd)
			serr := uc.SetClientRandom(rnd)
			ops = append(ops, "KRandom "+words(rnd))
			descr = append(descr, fmt.Sprintf("SetClientRandom(%d bytes)", len(rnd)))
			if len(rnd) != 32 {
				// refused: the random stays what it was
				if serr == nil {
					c.Fail("edit/random/"+strings.SplitN(key, "/", 2)[0], "SetClientRandom accepted a random that is not 32 bytes long", descr, len(rnd), "error")
				}
				continue
			}
			drop("random")
			exps = append(exps, expect{what: "random", val: rnd})
			fresh = false
		case 1:
			name := []string{"edited.example", "x.y.z.", "10.1.1.1", "a-much-longer-server-name.for-the-test.example.org", "[2001:db8::2]", "", "x"}[r.Intn(7)]
			uc.SetSNI(name)
			host := extcoq.HostnameInSNI(extcoq.HostnameInSNI(name))
			ops = append(ops, "KSNI "+vh.Bytes([]byte(host)))
			descr = append(descr, fmt.Sprintf("SetSNI(%q)", name))
			drop("sni")
			exps = append(exps, expect{what: "sni", val: []byte(host)})
			fresh = false
		case 2:
			// boundary lengths of legacy_session_id<0..32>: empty (nil and zero-length), 1, 31, 32
			sid := make([]byte, []int{32, 31, 16, 1, 0, 0}[r.Intn(6)])
			r.Read(sid)
			if len(sid) == 0 && r.Intn(2) == 0 {
				sid = nil
			}
			uc.HandshakeState.Hello.SessionId = sid
			ops = append(ops, "KSid "+words(sid))
			descr = append(descr, fmt.Sprintf("Hello.SessionId=%d bytes", len(sid)))
			drop("sid")
			exps = append(exps, expect{what: "sid", val: sid})
			fresh = false
		case 3:
			cs := append([]uint16(nil), uc.HandshakeState.Hello.CipherSuites...)
			switch x := r.Intn(8); {
			case x == 0:
				cs = []uint16{} // no cipher suite: encodable, the server refuses the hello (an error case of the handshake)
			case x == 1 && len(cs) > 0:
				cs = cs[:1]
			case len(cs) >= 2:
				i, j := r.Intn(len(cs)), r.Intn(len(cs))
				cs[i], cs[j] = cs[j], cs[i]
			}
			uc.HandshakeState.Hello.CipherSuites = cs
			b := make([]byte, 0, 2*len(cs))
			for _, s := range cs {
				b = append(b, byte(s>>8), byte(s))
			}
			ops = append(ops, "KSuites "+words(b))
			descr = append(descr, fmt.Sprintf("Hello.CipherSuites = %d suites (reordered / truncated / empty)", len(cs)))
			drop("suites")
			exps = append(exps, expect{what: "suites", u16s: cs})
			fresh = false
		case 4: // insert an unknown extension (never after pre_shared_key)
			if n < 2 {
				continue
			}
			i := r.Intn(n - 1)
			id := uint16(0x5a00 + len(ops)*3 + r.Intn(3))
			ge := &tls.GenericExtension{Id: id, Data: []byte(fmt.Sprintf("ins-%d", k))}
			uc.Extensions = append(uc.Extensions[:i:i], append([]tls.TLSExtension{ge}, uc.Extensions[i:]...)...)
			t, _ := extcoq.ExtTerm(ge)
			ops = append(ops, fmt.Sprintf("KInsert %d (XE %s)", i, t))
			descr = append(descr, fmt.Sprintf("Extensions: insert Generic 0x%x at %d", id, i))
			dropID(id)
			exps = append(exps, expect{what: "insert", id: id, val: ge.Data})
			fresh = false
		case 5: // remove an extension the handshake does not depend on
			var cand []int
			for i, e := range uc.Extensions {
				if safeToTouch(e) {
					cand = append(cand, i)
				}
			}
			if len(cand) == 0 {
				continue
			}
			i := cand[r.Intn(len(cand))]
			b := make([]byte, uc.Extensions[i].Len())
			uc.Extensions[i].Read(b)
			id := uint16(b[0])<<8 | uint16(b[1])
			uc.Extensions = append(uc.Extensions[:i:i], uc.Extensions[i+1:]...)
			ops = append(ops, fmt.Sprintf("KRemove %d", i))
			descr = append(descr, fmt.Sprintf("Extensions: remove #%d (type %d)", i, id))
			dropID(id)
			exps = append(exps, expect{what: "remove", id: id})
			fresh = false
		case 6: // replace an extension object
			var cand []int
			for i, e := range uc.Extensions {
				if _, ok := e.(*tls.ALPNExtension); ok || safeToTouch(e) {
					cand = append(cand, i)
				}
			}
			if len(cand) == 0 {
				continue
			}
			i := cand[r.Intn(len(cand))]
			var ne tls.TLSExtension
			var id uint16
			if _, ok := uc.Extensions[i].(*tls.ALPNExtension); ok {
				ne, id = &tls.ALPNExtension{AlpnProtocols: []string{"http/1.1", fmt.Sprintf("x%d", k)}}, 16
			} else {
				id = uint16(0x6b00 + len(ops)*3 + r.Intn(3))
				ne = &tls.GenericExtension{Id: id, Data: []byte(fmt.Sprintf("rep-%d", k))}
			}
			old := make([]byte, uc.Extensions[i].Len())
			uc.Extensions[i].Read(old)
			uc.Extensions[i] = ne
			nb := make([]byte, ne.Len())
			ne.Read(nb)
			t, _ := extcoq.ExtTerm(ne)
			ops = append(ops, fmt.Sprintf("KEdit %d (XE %s)", i, t))
			descr = append(descr, fmt.Sprintf("Extensions[%d] = new object of type %d", i, id))
			oid := uint16(old[0])<<8 | uint16(old[1])
			dropID(oid)
			dropID(id)
			exps = append(exps, expect{what: "edit", id: id, val: nb[4:]})
			if oid != id {
				exps = append(exps, expect{what: "remove", id: oid})
			}
			fresh = false
		default:
			var err error
			if pn, pv := vh.Recover(func() { err = uc.BuildHandshakeState() }); pn {
				c.Fail("panic/rebuild/"+strings.SplitN(key, "/", 2)[0], "BuildHandshakeState panicked after documented edits", strings.Join(descr, "; "), fmt.Sprint(pv), "nil")
				rc.Close()
				<-done
				return
			}
			if err != nil {
				c.Fail("rebuild-error/"+key, "BuildHandshakeState failed after documented edits", strings.Join(descr, "; "), err.Error(), "nil")
				rc.Close()
				<-done
				return
			}
			ops = append(ops, "KBuild")
			descr = append(descr, "BuildHandshakeState")
			fresh, lastBuilt = true, append([]byte(nil), uc.HandshakeState.Hello.Raw...)
		}
	}
	// a removed type that a later insert/replace brought back is not expected to be absent
	present := map[uint16]bool{}
	for _, e := range exps {
		if e.what == "insert" || e.what == "edit" {
			present[e.id] = true
		}
	}
	rawBefore := append([]byte(nil), uc.HandshakeState.Hello.Raw...)
	var herr error
	if pn, pv := vh.Recover(func() { herr = uc.Handshake() }); pn {
		c.Fail("panic/handshake/"+strings.SplitN(key, "/", 2)[0], "Handshake panicked after documented edits", strings.Join(descr, "; "), fmt.Sprint(pv), "ClientHello or error")
		rc.Close()
		<-done
		return
	}
	rawAfter := append([]byte(nil), uc.HandshakeState.Hello.Raw...)
	extsAfter := uc.Extensions
	didHRR := tls.VerifDidHRR(uc.Conn)
	if rs.resume {
		offered := len(h.PskIdentities) > 0 || len(h.SessionTicket) > 0
		if offered {
			c.Count("resumption-offered")
		}
		if herr == nil && uc.ConnectionState().DidResume {
			c.Count("resumed")
		}
		// the binders are recomputed over every re-marshalled hello (crypto, not modelled): the model gets the
		// session-bound extension objects as they are after the handshake and must reproduce every other byte
		if renderable && len(extsAfter) == len(exts) {
			for i, e := range extsAfter {
				if _, isTicket := e.(*tls.SessionTicketExtension); isPSK(e) || isTicket {
					if t, ok := extTerm(e); ok {
						exts[i] = t
					} else {
						renderable = false
					}
				}
			}
		}
	}
	uc.Close()
	<-done
	hellos := hs.ClientHellosFromStream(rc.Written())
	input := map[string]any{"fingerprint": rs.name, "calls": descr, "server": []string{"plain", "hrr group+cookie", "hrr cookie", "hrr group"}[rs.hrr]}
	if len(hellos) == 0 {
		c.Count("no-hello-written")
		if herr == nil {
			c.Fail("wire-vs-raw/"+key, "Handshake returned nil but no ClientHello was written", input, 0, ">= 1")
		}
		return
	}
	c.Count(fmt.Sprintf("hellos-%d", len(hellos)))
	if herr != nil {
		c.Count("handshake-error")
	}
	pname := strings.SplitN(key, "/", 2)[0]
	// ---- Go-side oracle ----
	if fresh && !bytes.Equal(hellos[0], lastBuilt) {
		c.Fail("wire-vs-raw/"+pname, "the first ClientHello on the wire differs from Hello.Raw of the BuildHandshakeState made right before Handshake",
			input, vh.Hex(hellos[0]), vh.Hex(lastBuilt))
	}
	_ = rawBefore
	if !bytes.Equal(rawAfter, hellos[len(hellos)-1]) {
		k := "wire-vs-raw/"
		if len(hellos) > 1 {
			k = "raw-after-hrr/"
		}
		c.Fail(k+pname, "Hello.Raw after Handshake is not the last ClientHello sent", input, vh.Hex(rawAfter), vh.Hex(hellos[len(hellos)-1]))
	}
	if didHRR && herr == nil && len(hellos) != 2 {
		c.Fail("raw-after-hrr/"+pname, "the handshake completed through a HelloRetryRequest but the stream does not hold two ClientHellos", input, len(hellos), 2)
	}
	if didHRR {
		c.Count("did-hrr")
	}
	w, ok := parseHello(hellos[0])
	if !ok {
		c.Fail("wire-vs-raw/"+pname, "the first ClientHello on the wire does not parse", input, vh.Hex(hellos[0]), "ClientHello")
		return
	}
	for _, e := range exps {
		bad := ""
		switch e.what {
		case "random":
			if !bytes.Equal(w.random, e.val) {
				bad = "SetClientRandom: the wire random is not the one set"
			}
		case "sid":
			if !bytes.Equal(w.sid, e.val) {
				bad = "Hello.SessionId edit not on the wire"
			}
		case "suites":
			if fmt.Sprint(w.suites) != fmt.Sprint(e.u16s) {
				bad = "Hello.CipherSuites edit not on the wire"
			}
		case "sni":
			hasObj := false
			for _, x := range extsAfter {
				if _, ok := x.(*tls.SNIExtension); ok {
					hasObj = true
				}
			}
			body, has := w.find(0)
			if hasObj && len(e.val) > 0 {
				want := append([]byte{byte((len(e.val) + 3) >> 8), byte(len(e.val) + 3), 0, byte(len(e.val) >> 8), byte(len(e.val))}, e.val...)
				if !has || !bytes.Equal(body, want) {
					bad = "SetSNI: the server_name on the wire is not the one set"
				}
			} else if has && len(e.val) == 0 {
				bad = "SetSNI with an IP literal: a server_name extension is still sent"
			}
		case "insert", "edit":
			body, has := w.find(e.id)
			if !has || !bytes.Equal(body, e.val) {
				bad = "edit of uconn.Extensions (" + e.what + ") not on the wire"
			}
		case "remove":
			if _, has := w.find(e.id); has && !present[e.id] {
				bad = "extension removed from uconn.Extensions is still on the wire"
			}
		}
		if bad != "" {
			c.Fail("edit/"+e.what+"/"+pname, bad, input, vh.Hex(hellos[0]), fmt.Sprintf("%s %x %v id=%d", e.what, e.val, e.u16s, e.id))
		}
	}
	// ---- Coq case ----
	if !renderable {
		c.Count("skipped-unrenderable")
		return
	}
	srv := "VPlain"
	if len(hellos) > 1 {
		// what the HelloRetryRequest did, read off the connection: selected group + fresh key, cookie and where it went
		g, keyb, idx := uint16(0), []byte(nil), 0
		if script.HRRGroup != 0 {
			g = uint16(script.HRRGroup)
			for _, e := range extsAfter {
				if ks, ok := e.(*tls.KeyShareExtension); ok && len(ks.KeyShares) == 1 {
					keyb = ks.KeyShares[0].Data
				}
			}
		}
		ck := script.HRRCookie
		for i, e := range extsAfter {
			if _, ok := e.(*tls.CookieExtension); ok {
				idx = i
			}
		}
		srv = fmt.Sprintf("(VHRR %d %s %s %d)", g, words(keyb), words(ck), idx)
	} else if rs.hrr != 0 {
		c.Count("hrr-not-sent") // a TLS 1.2-only fingerprint: the server never gets to send a HelloRetryRequest
	}
	var hl []string
	for _, m := range hellos {
		hl = append(hl, "PB "+words(m))
	}
	term := fmt.Sprintf("(CRun %s %s %s %s %s %s)", hdr, vh.List(exts), vh.List(ops), srv, vh.List(hl),
		vh.Bool(bytes.Equal(rawAfter, hellos[len(hellos)-1])))
	c.Case(fmt.Sprintf("run/%d-hello", len(hellos)), term, key, len(ops) > 0, nil)
}

func run(c *vh.Ctx) {
	ps := hs.Parrots()
	c.Extra["parrots"] = len(ps)
	per := 4
	maxOps := 4
	if c.Tier != "quick" {
		per, maxOps = c.N, 8
	}
	all := append([]hs.Parrot{}, ps...)
	nr := 3
	if c.Tier != "quick" {
		nr = 12
	}
	all = append(all, hs.RandomizedParrots(nr, c.Seed)...)
	for i, p := range all {
		for k := 0; k < per; k++ {
			r := rand.New(rand.NewSource(c.Seed*1000003 + int64(i)*131 + int64(k)))
			rs := runSpec{name: fmt.Sprintf("%s/%d", p.Name, k), id: p.ID, hrr: k % 4, nops: 1 + r.Intn(maxOps)}
			if strings.Contains(p.Name, "PSK") && rs.hrr != 0 {
				rs.hrr = 0 // DESIGN F-19b: a PSK fingerprint cannot answer a HelloRetryRequest
			}
			runOne(c, r, rs)
		}
	}
	runResumption(c, ps, maxOps)
}

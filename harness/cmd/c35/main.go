// C35 runner: session tickets are authenticated and round-trip.
// Drives SessionState.Bytes / ParseSessionState, TicketKeyFromBytes, Config.SetSessionTicketKeys /
// EncryptTicket / DecryptTicket (public API only) and a resumed connection from a forged
// ClientSessionState; emits correspondence cases for Corr.C35Corr and applies the property oracle.
package main

import (
	"bytes"
	"crypto/aes"
	"crypto/cipher"
	"crypto/ed25519"
	"crypto/hmac"
	"crypto/sha256"
	"crypto/sha512"
	"crypto/x509"
	"crypto/x509/pkix"
	"fmt"
	"math/big"
	"math/rand"
	"strings"
	"sync"
	"time"

	tls "github.com/refraction-networking/utls"
	"verif/harness/vh"
)

func main() { vh.Main(map[string]vh.Suite{"C35": {Corr: "Corr.C35Corr", Run: run}}) }

// ---------- deterministic material ----------

type detReader struct{ r *rand.Rand }

func (d detReader) Read(p []byte) (int, error) { return d.r.Read(p) }

// deterministic Ed25519 certificates (Ed25519 signing is deterministic, so the DER depends on the seed only)
func makeCerts(seed int64, n int) (ders [][]byte, certs []*x509.Certificate) {
	r := rand.New(rand.NewSource(seed ^ 0x35c35))
	for i := 0; i < n; i++ {
		sd := make([]byte, ed25519.SeedSize)
		r.Read(sd)
		k := ed25519.NewKeyFromSeed(sd)
		t := &x509.Certificate{SerialNumber: big.NewInt(int64(1000 + i)), Subject: pkix.Name{CommonName: fmt.Sprintf("c35-%d", i)},
			NotBefore: time.Unix(1700000000, 0), NotAfter: time.Unix(4000000000, 0), DNSNames: []string{"c35.test"},
			KeyUsage: x509.KeyUsageDigitalSignature, BasicConstraintsValid: true, IsCA: i > 0}
		der, err := x509.CreateCertificate(detReader{r}, t, t, k.Public(), k)
		if err != nil {
			panic(err)
		}
		c, err := x509.ParseCertificate(der)
		if err != nil {
			panic(err)
		}
		ders = append(ders, der)
		certs = append(certs, c)
	}
	return
}

// ---------- generated session states ----------

type gstate struct {
	Version   uint16
	IsClient  bool
	Suite     uint16
	CreatedAt uint64
	Secret    []byte
	Extra     [][]byte
	EMS       bool
	Early     bool
	Certs     [][]byte   // DER
	OCSP      []byte     // nil = absent
	SCTs      [][]byte   // nil = absent
	Chains    [][][]byte // leaf included
	ALPN      string
	UseBy     uint64
	AgeAdd    uint32
}

func coqBytesList(l [][]byte) string {
	it := make([]string, len(l))
	for i, b := range l {
		it[i] = vh.Bytes(b)
	}
	return vh.List(it)
}

func (g *gstate) coq() string {
	ocsp := "None"
	if g.OCSP != nil {
		ocsp = "(Some " + vh.Bytes(g.OCSP) + ")"
	}
	scts := "None"
	if g.SCTs != nil {
		scts = "(Some " + coqBytesList(g.SCTs) + ")"
	}
	ch := make([]string, len(g.Chains))
	for i, c := range g.Chains {
		ch[i] = coqBytesList(c)
	}
	return fmt.Sprintf("(mkState %d %s %d %d %s %s %s %s %s %s %s %s %s %d %d)", g.Version, vh.Bool(g.IsClient), g.Suite,
		g.CreatedAt, vh.Bytes(g.Secret), coqBytesList(g.Extra), vh.Bool(g.EMS), vh.Bool(g.Early), coqBytesList(g.Certs),
		ocsp, scts, vh.List(ch), vh.Str(g.ALPN), g.UseBy, g.AgeAdd)
}

// distinct certificates occurring anywhere in the state
func (g *gstate) usedCerts() [][]byte {
	seen := map[string]bool{}
	var out [][]byte
	add := func(d []byte) {
		if !seen[string(d)] {
			seen[string(d)] = true
			out = append(out, d)
		}
	}
	for _, d := range g.Certs {
		add(d)
	}
	for _, ch := range g.Chains {
		for _, d := range ch {
			add(d)
		}
	}
	return out
}

func rb(r *rand.Rand, lo, hi int) []byte {
	b := make([]byte, lo+r.Intn(hi-lo+1))
	r.Read(b)
	return b
}

// the domain of the round-trip statement, written from the struct comment in ticket.go (RFC 8446 presentation
// language): secret<1..255>, ocsp/sct entries non-empty, leaf-only extensions, chains start at the leaf,
// alpn only with early data, client states carry a server certificate, use_by/age_add only for TLS 1.3 clients
func (g *gstate) wellFormed() bool {
	if len(g.Secret) < 1 || len(g.Secret) > 255 || len(g.ALPN) > 255 {
		return false
	}
	if g.OCSP != nil && len(g.OCSP) == 0 {
		return false
	}
	if g.SCTs != nil {
		if len(g.SCTs) == 0 {
			return false
		}
		for _, s := range g.SCTs {
			if len(s) == 0 {
				return false
			}
		}
	}
	if len(g.Certs) == 0 && (g.OCSP != nil || g.SCTs != nil || len(g.Chains) > 0 || g.IsClient) {
		return false
	}
	for _, c := range g.Chains {
		if len(c) == 0 || !bytes.Equal(c[0], g.Certs[0]) {
			return false
		}
	}
	if !g.Early && g.ALPN != "" {
		return false
	}
	if !(g.IsClient && g.Version >= 0x0304) && (g.UseBy != 0 || g.AgeAdd != 0) {
		return false
	}
	return true
}

func genState(r *rand.Rand, ders [][]byte, size int) *gstate {
	small := size < 2
	vers := []uint16{0x0301, 0x0302, 0x0303, 0x0304, 0x0304, 0x0303, 0x0305, 0xffff, 0}
	g := &gstate{Version: vers[r.Intn(len(vers))], IsClient: r.Intn(2) == 0, Suite: uint16(r.Intn(65536)),
		EMS: r.Intn(2) == 0, Early: r.Intn(3) == 0}
	switch r.Intn(4) {
	case 0:
		g.CreatedAt = uint64(r.Int63())<<1 | uint64(r.Intn(2))
	case 1:
		g.CreatedAt = 1<<32 + uint64(r.Intn(1000))
	default:
		g.CreatedAt = 1700000000 + uint64(r.Intn(1<<20))
	}
	g.Secret = rb(r, 1, 48)
	if r.Intn(12) == 0 {
		g.Secret = rb(r, 255, 255)
	}
	for i, n := 0, r.Intn(4); i < n; i++ {
		g.Extra = append(g.Extra, rb(r, 0, 9))
	}
	nc := r.Intn(4)
	if small {
		nc = r.Intn(2) * r.Intn(2)
	}
	if size == 0 {
		g.IsClient, nc = false, 0
	}
	if g.IsClient && nc == 0 {
		nc = 1
	}
	perm := r.Perm(len(ders))
	for i := 0; i < nc; i++ {
		g.Certs = append(g.Certs, ders[perm[i]])
	}
	if nc > 0 {
		if r.Intn(2) == 0 {
			g.OCSP = rb(r, 1, 12)
		}
		if r.Intn(2) == 0 {
			for i, n := 0, 1+r.Intn(3); i < n; i++ {
				g.SCTs = append(g.SCTs, rb(r, 1, 10))
			}
		}
		if !small {
			for i, n := 0, r.Intn(3); i < n; i++ {
				ch := [][]byte{g.Certs[0]}
				for j, m := 0, r.Intn(3); j < m; j++ {
					ch = append(ch, ders[r.Intn(len(ders))])
				}
				g.Chains = append(g.Chains, ch)
			}
		}
	}
	if g.Early {
		g.ALPN = []string{"h2", "http/1.1", "", "h3"}[r.Intn(4)]
	}
	if g.IsClient && g.Version >= 0x0304 {
		g.UseBy = uint64(r.Int63())
		g.AgeAdd = r.Uint32()
	}
	return g
}

// reference encoder, written from the presentation-language comment in ticket.go, not from Bytes()
func u16(b []byte, v int) []byte { return append(b, byte(v>>8), byte(v)) }
func u24(b []byte, v int) []byte { return append(b, byte(v>>16), byte(v>>8), byte(v)) }
func u64(b []byte, v uint64) []byte {
	for i := 7; i >= 0; i-- {
		b = append(b, byte(v>>(8*uint(i))))
	}
	return b
}
func vec24(b, body []byte) []byte { return append(u24(b, len(body)), body...) }
func vec16(b, body []byte) []byte { return append(u16(b, len(body)), body...) }

func (g *gstate) refBytes() []byte {
	var b []byte
	b = u16(b, int(g.Version))
	if g.IsClient {
		b = append(b, 2)
	} else {
		b = append(b, 1)
	}
	b = u16(b, int(g.Suite))
	b = u64(b, g.CreatedAt)
	b = append(b, byte(len(g.Secret)))
	b = append(b, g.Secret...)
	var ex []byte
	for _, e := range g.Extra {
		ex = vec24(ex, e)
	}
	b = vec24(b, ex)
	bb := func(x bool) byte {
		if x {
			return 1
		}
		return 0
	}
	b = append(b, bb(g.EMS), bb(g.Early))
	var cl []byte
	for i, c := range g.Certs {
		cl = vec24(cl, c)
		var exts []byte
		if i == 0 {
			if g.OCSP != nil { // status_request(5): status_type ocsp(1), opaque response<1..2^24-1>
				exts = u16(exts, 5)
				exts = vec16(exts, vec24([]byte{1}, g.OCSP))
			}
			if g.SCTs != nil { // signed_certificate_timestamp(18): SerializedSCT list<1..2^16-1>
				var l []byte
				for _, s := range g.SCTs {
					l = vec16(l, s)
				}
				exts = u16(exts, 18)
				exts = vec16(exts, vec16(nil, l))
			}
		}
		cl = vec16(cl, exts)
	}
	b = vec24(b, cl)
	var chs []byte
	for _, ch := range g.Chains {
		var one []byte
		for _, c := range ch[1:] {
			one = vec24(one, c)
		}
		chs = vec24(chs, one)
	}
	b = vec24(b, chs)
	if g.Early {
		b = append(b, byte(len(g.ALPN)))
		b = append(b, g.ALPN...)
	}
	if g.IsClient && g.Version >= 0x0304 {
		b = u64(b, g.UseBy)
		b = append(b, byte(g.AgeAdd>>24), byte(g.AgeAdd>>16), byte(g.AgeAdd>>8), byte(g.AgeAdd))
	}
	return b
}

type env struct {
	ders    [][]byte
	certs   []*x509.Certificate
	byDER   map[string]*x509.Certificate
	goodCoq string
}

func (e *env) x(ders [][]byte) []*x509.Certificate {
	var out []*x509.Certificate
	for _, d := range ders {
		out = append(out, e.byDER[string(d)])
	}
	return out
}

// a *SessionState built only with the uTLS public constructor and setters (isClient=false, no OCSP/SCT/ALPN);
// lets non-well-formed states (empty/oversized secret, foreign or empty chains) reach Bytes()
func (e *env) viaSetters(g *gstate) *tls.SessionState {
	var chains [][]*x509.Certificate
	for _, ch := range g.Chains {
		chains = append(chains, e.x(ch))
	}
	css := tls.MakeClientSessionState(nil, g.Version, g.Suite, g.Secret, e.x(g.Certs), chains)
	css.SetCreatedAt(g.CreatedAt)
	css.SetEMS(g.EMS)
	css.SetUseBy(g.UseBy)
	css.SetAgeAdd(g.AgeAdd)
	_, ss, _ := css.ResumptionState()
	ss.Extra = g.Extra
	ss.EarlyData = g.Early
	return ss
}

func genSetterState(r *rand.Rand, ders [][]byte) *gstate {
	g := genState(r, ders, r.Intn(3)*r.Intn(2)*r.Intn(2))
	g.IsClient, g.OCSP, g.SCTs, g.ALPN = false, nil, nil, ""
	switch r.Intn(8) {
	case 0:
		g.Secret = nil
	case 1:
		g.Secret = rb(r, 256, 300)
	case 2:
		g.Chains = append(g.Chains, [][]byte{})
	case 3:
		if len(g.Certs) > 0 {
			g.Chains = append(g.Chains, [][]byte{ders[r.Intn(len(ders))], ders[r.Intn(len(ders))]})
		}
	case 4:
		g.Certs, g.Chains = nil, [][][]byte{{ders[0]}}
	}
	if r.Intn(3) > 0 {
		g.UseBy, g.AgeAdd = 0, 0
	} else {
		g.UseBy, g.AgeAdd = uint64(r.Int63()), r.Uint32()
	}
	return g
}

func optBytes(ok bool, b []byte) string { return vh.Opt(ok, vh.Bytes(b)) }

func sameState(a, b *tls.SessionState) (bool, string) {
	ab, e1 := a.Bytes()
	bbs, e2 := b.Bytes()
	if e1 != nil || e2 != nil {
		return false, fmt.Sprint("Bytes() error ", e1, e2)
	}
	if !bytes.Equal(ab, bbs) {
		return false, "encodings differ: " + vh.Hex(bbs)
	}
	if a.EarlyData != b.EarlyData || len(a.Extra) != len(b.Extra) {
		return false, "Extra/EarlyData differ"
	}
	for i := range a.Extra {
		if !bytes.Equal(a.Extra[i], b.Extra[i]) {
			return false, "Extra differs"
		}
	}
	return true, ""
}

func run(c *vh.Ctx) {
	ders, certs := makeCerts(7, 5) // fixed material: identical for every seed
	e := &env{ders: ders, certs: certs, byDER: map[string]*x509.Certificate{}}
	for i, d := range ders {
		e.byDER[string(d)] = certs[i]
	}
	e.goodCoq = coqBytesList(ders)
	r := c.Rng
	nState := c.N
	// 1. SessionState.Bytes / ParseSessionState
	for i := 0; i < nState; i++ {
		size := 0
		if i%5 == 0 {
			size = 1
			if i%20 == 0 {
				size = 2
			}
		}
		g := genState(r, ders, size)
		ref := g.refBytes()
		ss, err := tls.ParseSessionState(ref)
		key := fmt.Sprintf("state/%d/%x", i, sha256.Sum256(ref))[:40]
		if err != nil {
			c.Fail("codec-parse-valid", "ParseSessionState rejects a valid encoding (RFC-style struct in ticket.go)", vh.Hex(ref), fmt.Sprint(err), "state")
			continue
		}
		out, err := ss.Bytes()
		c.Case("bytes", fmt.Sprintf("CBytes %s %s", g.coq(), optBytes(err == nil, out)), key, len(g.Certs) > 0 || len(g.Extra) > 0, map[string]any{"state": g, "bytes": vh.Hex(out)})
		if err != nil || !bytes.Equal(out, ref) {
			c.Fail("codec-roundtrip", "Bytes(ParseSessionState(enc)) != enc for a valid encoding", vh.Hex(ref), vh.Hex(out), vh.Hex(ref))
		}
		extraOK := len(ss.Extra) == len(g.Extra)
		for j := 0; extraOK && j < len(g.Extra); j++ {
			extraOK = bytes.Equal(ss.Extra[j], g.Extra[j])
		}
		if !extraOK || ss.EarlyData != g.Early {
			c.Fail("codec-public-fields", "parsed Extra/EarlyData differ from the encoded ones", vh.Hex(ref), fmt.Sprint(ss.EarlyData, len(ss.Extra)), fmt.Sprint(g.Early, len(g.Extra)))
		}
		good := coqBytesList(g.usedCerts())
		if i%3 == 0 {
			c.Case("parse", fmt.Sprintf("CParse %s %s (Some %s)", good, vh.Bytes(ref), optBytes(true, out)), key, true, nil)
		}
		// mutated / truncated encodings (mutation positions outside certificate DER so that x509ok stays a whitelist)
		if i%2 == 0 {
			for m := 0; m < 3; m++ {
				if len(g.Certs) > 0 && m != i%3 {
					continue
				}
				mut := append([]byte{}, ref...)
				what := ""
				if m == 2 {
					mut = mut[:r.Intn(len(mut))]
					what = fmt.Sprintf("trunc%d", len(mut))
				} else {
					pos := r.Intn(len(mut))
					inCert := false
					for _, d := range ders {
						for off := 0; ; {
							j := bytes.Index(ref[off:], d)
							if j < 0 {
								break
							}
							if pos >= off+j && pos < off+j+len(d) {
								inCert = true
							}
							off += j + 1
						}
					}
					if inCert {
						continue
					}
					mut[pos] ^= 1 << uint(r.Intn(8))
					what = fmt.Sprintf("flip%d", pos)
				}
				ps, perr := tls.ParseSessionState(mut)
				obs := "None"
				if perr == nil {
					pb, berr := ps.Bytes()
					obs = "(Some " + optBytes(berr == nil, pb) + ")"
				}
				c.Case("parse-mut", fmt.Sprintf("CParse %s %s %s", good, vh.Bytes(mut), obs), key+what, perr == nil, nil)
			}
		}
	}
	// 1b. states that only the uTLS setters can build
	for i := 0; i < nState/2; i++ {
		g := genSetterState(r, ders)
		ss := e.viaSetters(g)
		out, err := ss.Bytes()
		c.Case("bytes-setters", fmt.Sprintf("CBytes %s %s", g.coq(), optBytes(err == nil, out)), fmt.Sprintf("set/%d/%s", i, g.coq())[:60]+fmt.Sprintf("%x", sha256.Sum256([]byte(g.coq())))[:16], err == nil, nil)
		if g.wellFormed() && g.UseBy == 0 && g.AgeAdd == 0 {
			if err != nil || !bytes.Equal(out, g.refBytes()) {
				c.Fail("setters-bytes", "Bytes() of a state built with MakeClientSessionState+setters differs from the specified encoding", g, vh.Hex(out), vh.Hex(g.refBytes()))
			}
		}
	}
	// 2. TicketKeyFromBytes
	for i := 0; i < nState/4+4; i++ {
		var b [32]byte
		r.Read(b[:])
		if i == 0 {
			b = [32]byte{}
		}
		K := tls.TicketKeyFromBytes(b)
		h := sha512.Sum512(b[:])
		c.Case("key", fmt.Sprintf("CKey %s %s %s %s", vh.Bytes(b[:]), vh.Bytes(h[:]), vh.Bytes(K.AesKey[:]), vh.Bytes(K.HmacKey[:])), vh.Hex(b[:]), true, nil)
		if !bytes.Equal(K.AesKey[:], h[16:32]) || !bytes.Equal(K.HmacKey[:], h[32:48]) {
			c.Fail("key-derivation", "TicketKeyFromBytes is not SHA-512(b)[16:32] / [32:48]", vh.Hex(b[:]), vh.Hex(K.AesKey[:])+"/"+vh.Hex(K.HmacKey[:]), vh.Hex(h[16:48]))
		}
		p := K.ToPrivate().ToPublic()
		if p.AesKey != K.AesKey || p.HmacKey != K.HmacKey {
			c.Fail("key-conversion", "TicketKey.ToPrivate().ToPublic() changes the key", vh.Hex(b[:]), nil, nil)
		}
	}
	// 3. tickets: exhaustive mutation, rotation, framing (Go-side oracle)
	nT := c.N / 8
	if nT < 6 {
		nT = 6
	}
	for i := 0; i < nT; i++ {
		runTicket(c, e, i)
	}
	// 4. histories on one Config against the model
	nH := c.N / 10
	if nH < 8 {
		nH = 8
	}
	for i := 0; i < nH; i++ {
		runHistory(c, e, i)
	}
	// 4a. interleaved and concurrent decryptions: every returned state stays the value it was
	for i := 0; i < nT/2+2; i++ {
		runInterleaved(c, e, i)
	}
	// 4b. families of Configs related by Clone
	nF := c.N / 10
	if nF < 6 {
		nF = 6
	}
	for i := 0; i < nF; i++ {
		runFamily(c, e, i)
	}
	// 5. resumption through a forged ClientSessionState
	runResume(c, e)
}

func key32(r *rand.Rand) (k [32]byte) { r.Read(k[:]); return }

// expected framing of a ticket sealed under key material b: iv || CTR(state) || HMAC(iv || CTR(state))
func sealRef(b [32]byte, iv, state []byte) []byte {
	K := tls.TicketKeyFromBytes(b)
	blk, _ := aes.NewCipher(K.AesKey[:])
	ct := make([]byte, len(state))
	cipher.NewCTR(blk, iv).XORKeyStream(ct, state)
	out := append(append([]byte{}, iv...), ct...)
	m := hmac.New(sha256.New, K.HmacKey[:])
	m.Write(out)
	return m.Sum(out)
}

func runTicket(c *vh.Ctx, e *env, idx int) {
	r := c.Rng
	g := genState(r, e.ders, idx%3)
	ss, err := tls.ParseSessionState(g.refBytes())
	if err != nil {
		c.Fail("codec-parse-valid", "ParseSessionState rejects a valid encoding", vh.Hex(g.refBytes()), fmt.Sprint(err), "state")
		return
	}
	nk := 1 + r.Intn(4)
	keys := make([][32]byte, nk)
	for i := range keys {
		keys[i] = key32(r)
	}
	stream := rand.New(rand.NewSource(r.Int63()))
	var consumed []byte
	cfg := &tls.Config{Rand: readerFunc(func(p []byte) (int, error) { stream.Read(p); consumed = append(consumed, p...); return len(p), nil })}
	cfg.SetSessionTicketKeys(keys)
	ticket, err := cfg.EncryptTicket(tls.ConnectionState{}, ss)
	c.Count("tickets")
	if err != nil {
		c.Fail("ticket-seal", "EncryptTicket fails on a valid state", g, fmt.Sprint(err), "ticket")
		return
	}
	// framing predicted from the property's reading of the code: iv = last 16 random bytes drawn
	iv := consumed[len(consumed)-16:]
	want := sealRef(keys[0], iv, g.refBytes())
	if !bytes.Equal(ticket, want) {
		c.Fail("ticket-framing", "ticket != iv || AES-CTR(key0.aes, iv, state) || HMAC-SHA256(key0.hmac, iv||ct)", g, vh.Hex(ticket), vh.Hex(want))
	}
	back, err := cfg.DecryptTicket(ticket, tls.ConnectionState{})
	if err != nil || back == nil {
		c.Fail("ticket-roundtrip", "DecryptTicket(EncryptTicket(s)) yields no state under the same keys", g, fmt.Sprint(back, err), "state")
		return
	}
	if ok, why := sameState(ss, back); !ok {
		c.Fail("ticket-roundtrip", "DecryptTicket(EncryptTicket(s)) != s: "+why, g, nil, nil)
	}
	keep := &keeper{}
	keep.hold(back, "ticket")
	defer func() {
		keep.check(c, "end of the per-ticket sweep")
		if ok, why := sameState(ss, back); !ok && !keep.failed {
			c.Fail("state-value-changed/ticket", "the state returned for a ticket no longer equals the original at the end of the sweep: "+why, g, nil, nil)
		}
	}()
	// every single-bit flip and every truncation
	mut := make([]byte, len(ticket))
	for bit := 0; bit < 8*len(ticket); bit++ {
		copy(mut, ticket)
		mut[bit/8] ^= 1 << uint(bit%8)
		if s, _ := cfg.DecryptTicket(mut, tls.ConnectionState{}); s != nil {
			region := "iv"
			if bit/8 >= len(ticket)-32 {
				region = "tag"
			} else if bit/8 >= 16 {
				region = "ciphertext"
			}
			c.Fail("ticket-bitflip/"+region, "a ticket with one flipped bit is accepted", map[string]any{"ticket": vh.Hex(ticket), "bit": bit}, "state", "nil")
			break
		}
		c.Count("bitflips")
	}
	for n := 0; n < len(ticket); n++ {
		if s, _ := cfg.DecryptTicket(ticket[:n], tls.ConnectionState{}); s != nil {
			c.Fail("ticket-truncation", "a truncated ticket is accepted", map[string]any{"ticket": vh.Hex(ticket), "len": n}, "state", "nil")
			break
		}
		if s, _ := cfg.DecryptTicket(ticket[len(ticket)-n:], tls.ConnectionState{}); s != nil && n > 0 {
			c.Fail("ticket-truncation", "a ticket truncated at the front is accepted", map[string]any{"ticket": vh.Hex(ticket), "len": n}, "state", "nil")
			break
		}
		c.Count("truncations")
	}
	// insertions and extensions: k arbitrary bytes in front, behind and inside, k = 1..64; the ticket twice; two
	// valid tickets glued together (either order) — none of these strings is iv||ct||tag of the whole input
	g2 := genState(r, e.ders, 0)
	ss2, _ := tls.ParseSessionState(g2.refBytes())
	ticket2, _ := cfg.EncryptTicket(tls.ConnectionState{}, ss2)
	if s2, _ := cfg.DecryptTicket(ticket2, tls.ConnectionState{}); s2 != nil {
		keep.hold(s2, "ticket")
	}
	keep.check(c, "decrypting another ticket")
	tryBad := func(key, what string, t []byte, detail any) bool {
		c.Count("insertions")
		if s, _ := cfg.DecryptTicket(t, tls.ConnectionState{}); s != nil {
			c.Fail(key, what, map[string]any{"ticket": vh.Hex(ticket), "modified": vh.Hex(t), "detail": detail}, "state", "nil")
			return true
		}
		return false
	}
	for k := 1; k <= 64; k++ {
		junk := make([]byte, k)
		r.Read(junk)
		pos := 1 + r.Intn(len(ticket)-1)
		ins := append(append(append([]byte{}, ticket[:pos]...), junk...), ticket[pos:]...)
		if tryBad(fmt.Sprintf("ticket-prepend/%d", k), "a valid ticket with arbitrary bytes in front of it is accepted", append(append([]byte{}, junk...), ticket...), k) ||
			tryBad(fmt.Sprintf("ticket-append/%d", k), "a valid ticket with arbitrary bytes appended is accepted", append(append([]byte{}, ticket...), junk...), k) ||
			tryBad(fmt.Sprintf("ticket-insert/%d", k), "a valid ticket with arbitrary bytes inserted is accepted", ins, map[string]int{"k": k, "pos": pos}) {
			break
		}
		// the same with bytes taken from the ticket itself (iv / tag / leading part repeated)
		if k <= len(ticket) && (tryBad(fmt.Sprintf("ticket-prepend-own/%d", k), "a valid ticket preceded by a copy of its own first bytes is accepted", append(append([]byte{}, ticket[:k]...), ticket...), k) ||
			tryBad(fmt.Sprintf("ticket-append-own/%d", k), "a valid ticket followed by a copy of its own last bytes is accepted", append(append([]byte{}, ticket...), ticket[len(ticket)-k:]...), k)) {
			break
		}
	}
	tryBad("ticket-duplicated", "a ticket followed by itself is accepted", append(append([]byte{}, ticket...), ticket...), nil)
	if ticket2 != nil {
		tryBad("ticket-concat", "two valid tickets glued together are accepted", append(append([]byte{}, ticket...), ticket2...), "t1||t2")
		tryBad("ticket-concat", "two valid tickets glued together are accepted", append(append([]byte{}, ticket2...), ticket...), "t2||t1")
	}
	// rotations: the sealing key moves back, then disappears
	rot := append([][32]byte{key32(r)}, keys...)
	cfg.SetSessionTicketKeys(rot)
	if s, _ := cfg.DecryptTicket(ticket, tls.ConnectionState{}); s == nil {
		c.Fail("rotation-kept", "ticket sealed by a key that is still configured (rotated to a later position) is refused", g, "nil", "state")
	} else if ok, why := sameState(ss, s); !ok {
		c.Fail("rotation-kept", "state changes across a rotation that keeps the sealing key: "+why, g, nil, nil)
	}
	// second config with the same material decrypts too (keys are a function of the 32 bytes only)
	cfg2 := &tls.Config{}
	cfg2.SetSessionTicketKeys([][32]byte{keys[0]})
	if s, _ := cfg2.DecryptTicket(ticket, tls.ConnectionState{}); s == nil {
		c.Fail("keys-function-of-bytes", "another Config given the same 32 key bytes cannot open the ticket", g, "nil", "state")
	}
	gone := [][32]byte{rot[0]}
	gone = append(gone, keys[1:]...)
	cfg.SetSessionTicketKeys(gone)
	if s, _ := cfg.DecryptTicket(ticket, tls.ConnectionState{}); s != nil {
		c.Fail("rotation-dropped", "ticket sealed by a key that is no longer configured is accepted", g, "state", "nil")
	}
	c.Count("rotations")
}

// a ticket seen before, unchanged (half of the time) or modified: bit flip, truncation, k bytes (k = 1..64, often
// 16/32/48) prepended / appended / inserted, the ticket twice, two tickets glued together
func mutateTicket(r *rand.Rand, tickets [][]byte) []byte {
	t := append([]byte{}, tickets[r.Intn(len(tickets))]...)
	k := []int{16, 32, 48, 1 + r.Intn(64), 1 + r.Intn(64)}[r.Intn(5)]
	junk := make([]byte, k)
	r.Read(junk)
	if len(t) == 0 {
		return t
	}
	switch r.Intn(14) {
	case 0:
		t[r.Intn(len(t))] ^= 1 << uint(r.Intn(8))
	case 1:
		t = t[:r.Intn(len(t)+1)]
	case 2:
		t = t[:r.Intn(49)%(len(t)+1)]
	case 3:
		t = append(junk, t...)
	case 4:
		t = append(t, junk...)
	case 5:
		pos := r.Intn(len(t))
		t = append(append(append([]byte{}, t[:pos]...), junk...), t[pos:]...)
	case 6:
		t = append(t, t...)
	case 7:
		t = append(t, tickets[r.Intn(len(tickets))]...)
	case 8:
		if k > len(t) {
			k = len(t)
		}
		t = append(append([]byte{}, t[:k]...), t...) // own leading bytes (e.g. the iv) repeated in front
	}
	return t
}

// lookup tables for the model: SHA-512 of every candidate key; per ticket, HMAC under every candidate key over all
// bytes but the last 32, and the CTR keystream under the keys whose tag verifies
func buildTables(cands [][32]byte, tickets [][]byte) *tabs {
	tb := &tabs{seen: map[string]bool{}}
	type kd struct{ aes, hm []byte }
	var kds []kd
	for _, k := range cands {
		h := sha512.Sum512(k[:])
		tb.add("sh", fmt.Sprintf("(%s, %s)", vh.Bytes(k[:]), vh.Bytes(h[:])), &tb.sh)
		kds = append(kds, kd{append([]byte{}, h[16:32]...), append([]byte{}, h[32:48]...)})
	}
	seenT := map[string]bool{}
	for _, t := range tickets {
		if len(t) < 48 || seenT[string(t)] {
			continue
		}
		seenT[string(t)] = true
		auth, tag := t[:len(t)-32], t[len(t)-32:]
		var per []string
		seenK := map[string]bool{}
		for _, k := range kds {
			if seenK[string(k.hm)] {
				continue
			}
			seenK[string(k.hm)] = true
			m := hmac.New(sha256.New, k.hm)
			m.Write(auth)
			sum := m.Sum(nil)
			per = append(per, fmt.Sprintf("(%s, %s)", vh.Bytes(k.hm), vh.Bytes(sum)))
			if bytes.Equal(sum, tag) { // the keystream is only ever needed under a key whose tag verifies
				blk, _ := aes.NewCipher(k.aes)
				ksb := make([]byte, len(t)-48)
				cipher.NewCTR(blk, t[:16]).XORKeyStream(ksb, ksb)
				tb.add("ks", fmt.Sprintf("(%s, %s, %s)", vh.Bytes(k.aes), vh.Bytes(t[:16]), vh.Bytes(ksb)), &tb.ks)
			}
		}
		tb.hm = append(tb.hm, fmt.Sprintf("(%s, %s)", vh.Bytes(auth), vh.List(per)))
	}
	return tb
}

// ---------- returned states are VALUES: they must stay equal to the original whatever happens afterwards ----------
type kept struct {
	s     *tls.SessionState
	want  []byte   // Bytes() when the state was returned
	extra [][]byte // copies of Extra at that time
	early bool
	where string
}

type keeper struct {
	items  []kept
	failed bool
}

// hold remembers a state returned by DecryptTicket and returns a token that resolve() later replaces by the
// observation (Bytes() of the state) taken at the END of the history, which is what the model is compared with
func (k *keeper) hold(s *tls.SessionState, where string) string {
	b, err := s.Bytes()
	it := kept{s: s, early: s.EarlyData, where: where}
	if err == nil {
		it.want = b
	}
	for _, x := range s.Extra {
		it.extra = append(it.extra, append([]byte{}, x...))
	}
	k.items = append(k.items, it)
	return fmt.Sprintf("@@K%d@@", len(k.items)-1)
}

func (it *kept) intact() (bool, string) {
	b, err := it.s.Bytes()
	if (err == nil) != (it.want != nil) || !bytes.Equal(b, it.want) {
		return false, "encoding now " + vh.Hex(b)
	}
	if it.s.EarlyData != it.early || len(it.s.Extra) != len(it.extra) {
		return false, "Extra/EarlyData changed"
	}
	for i := range it.extra {
		if !bytes.Equal(it.s.Extra[i], it.extra[i]) {
			return false, fmt.Sprintf("Extra[%d] now %x", i, it.s.Extra[i])
		}
	}
	return true, ""
}

// check deep-compares every state held so far against what it was when it was returned
func (k *keeper) check(c *vh.Ctx, after string) bool {
	if k.failed {
		return false
	}
	for i := range k.items {
		if ok, why := k.items[i].intact(); !ok {
			k.failed = true
			c.Fail("state-value-changed/"+k.items[i].where, "a SessionState returned by DecryptTicket changed after a later ticket operation (it shares memory with something that was reused)",
				map[string]any{"held_state_index": i, "states_held": len(k.items), "changed_after": after, "was": vh.Hex(k.items[i].want)}, why, "the state as returned")
			return false
		}
	}
	return true
}

func (k *keeper) resolve(ops []string) []string {
	out := make([]string, len(ops))
	for i, op := range ops {
		for j := range k.items {
			tok := fmt.Sprintf("@@K%d@@", j)
			if strings.Contains(op, tok) {
				obs := "None"
				if b, err := k.items[j].s.Bytes(); err == nil {
					obs = optBytes(true, b)
				}
				op = strings.Replace(op, tok, obs, 1)
			}
		}
		out[i] = op
	}
	return out
}

type readerFunc func(p []byte) (int, error)

func (f readerFunc) Read(p []byte) (int, error) { return f(p) }

// ---------- histories ----------
type tabs struct {
	sh, hm, ks []string
	seen       map[string]bool
}

func (t *tabs) add(kind string, ent string, dst *[]string) {
	if t.seen[kind+ent] {
		return
	}
	t.seen[kind+ent] = true
	*dst = append(*dst, ent)
}

func runHistory(c *vh.Ctx, e *env, idx int) {
	r := c.Rng
	stream := rand.New(rand.NewSource(r.Int63()))
	var all []byte
	var cands [][32]byte
	rd := readerFunc(func(p []byte) (int, error) {
		stream.Read(p)
		all = append(all, p...)
		if len(p) == 32 {
			var k [32]byte
			copy(k[:], p)
			cands = append(cands, k)
		}
		return len(p), nil
	})
	t0 := int64(1700000000 + r.Intn(100000))
	now := t0
	cfg := &tls.Config{Rand: rd, Time: func() time.Time { return time.Unix(now, 0) }}
	var ops []string
	var tickets [][]byte
	var kinds []string
	var usedDers [][]byte
	keep := &keeper{}
	nops := 3 + r.Intn(8)
	mode := idx % 3 // 0: explicit keys, 1: automatic rotation, 2: mixed incl. legacy field
	for i := 0; i < nops; i++ {
		k := r.Intn(10)
		switch {
		case k == 0 && mode != 1:
			n := r.Intn(4)
			if r.Intn(4) > 0 && n == 0 {
				n = 1
			}
			ks := make([][32]byte, n)
			var it []string
			for j := range ks {
				if len(cands) > 0 && r.Intn(3) == 0 {
					ks[j] = cands[r.Intn(len(cands))] // re-install an older key
				} else {
					ks[j] = key32(r)
					cands = append(cands, ks[j])
				}
				it = append(it, vh.Bytes(ks[j][:]))
			}
			p, _ := vh.Recover(func() { cfg.SetSessionTicketKeys(ks) })
			ops = append(ops, fmt.Sprintf("HSetKeys %s %s", vh.List(it), vh.Bool(p)))
			kinds = append(kinds, "set")
		case k == 1 && mode == 2:
			b := key32(r)
			if r.Intn(4) == 0 {
				copy(b[:], "DEPRECATED")
			}
			cands = append(cands, b)
			cfg.SessionTicketKey = b
			ops = append(ops, "HSetLegacy "+vh.Bytes(b[:]))
			kinds = append(kinds, "legacy")
		case k == 2 && mode == 2 && r.Intn(3) == 0:
			cfg.SessionTicketsDisabled = !cfg.SessionTicketsDisabled
			ops = append(ops, "HDisable "+vh.Bool(cfg.SessionTicketsDisabled))
			kinds = append(kinds, "disable")
		case k <= 3:
			dts := []int64{3600, 86399, 86400, 86401, 3 * 86400, 604799 - 86400, 604800, 8 * 86400, 1}
			dt := dts[r.Intn(len(dts))]
			now += dt
			ops = append(ops, fmt.Sprintf("HAdvance %d%%Z", dt))
			kinds = append(kinds, "advance")
		case k <= 6 || len(tickets) == 0:
			sz := 0
			if r.Intn(6) == 0 {
				sz = 1
			}
			g := genState(r, e.ders, sz)
			var ss *tls.SessionState
			if r.Intn(6) == 0 {
				g = genSetterState(r, e.ders)
				g.Chains, g.Certs = nil, nil
				ss = e.viaSetters(g)
			} else {
				var err error
				if ss, err = tls.ParseSessionState(g.refBytes()); err != nil {
					c.Fail("codec-parse-valid", "ParseSessionState rejects a valid encoding", vh.Hex(g.refBytes()), fmt.Sprint(err), "state")
					return
				}
			}
			var t []byte
			var err error
			p, pv := vh.Recover(func() { t, err = cfg.EncryptTicket(tls.ConnectionState{}, ss) })
			if p {
				c.Fail("seal-panic", "EncryptTicket panicked", g, fmt.Sprint(pv), "no panic")
				return
			}
			ops = append(ops, fmt.Sprintf("HSeal %s %s", g.coq(), optBytes(err == nil, t)))
			kinds = append(kinds, "seal")
			for _, d := range g.usedCerts() {
				dup := false
				for _, u := range usedDers {
					dup = dup || bytes.Equal(u, d)
				}
				if !dup {
					usedDers = append(usedDers, d)
				}
			}
			if err == nil {
				tickets = append(tickets, t)
			}
		default:
			t := mutateTicket(r, tickets)
			var s *tls.SessionState
			p, pv := vh.Recover(func() { s, _ = cfg.DecryptTicket(t, tls.ConnectionState{}) })
			if p {
				c.Fail("open-panic", "DecryptTicket panicked", vh.Hex(t), fmt.Sprint(pv), "no panic")
				return
			}
			obs := "None"
			if s != nil {
				obs = keep.hold(s, "history")
			}
			ops = append(ops, fmt.Sprintf("HOpen %s %s", vh.Bytes(t), obs))
			kinds = append(kinds, "open")
			tickets = append(tickets, t)
		}
		keep.check(c, kinds[len(kinds)-1])
	}
	ops = keep.resolve(ops)
	tb := buildTables(cands, tickets)
	term := fmt.Sprintf("CHist %s %s %s %s %s %d%%Z %s", vh.List(tb.sh), vh.List(tb.hm), vh.List(tb.ks), coqBytesList(usedDers),
		vh.Bytes(append(all, make([]byte, 64)...)), t0, vh.List(ops))
	c.Case("history", term, fmt.Sprintf("hist/%d/%s", mode, strings.Join(kinds, ",")), len(tickets) >= 2, map[string]any{"mode": mode, "ops": kinds})
}

// ---------- families of Configs: Clone before / after rotations, rotate original and clones ----------
// After every step every member seals a ticket and every member tries the newest ticket of every member.
// Oracle (property text): a config opens a ticket iff the key that sealed it is among the keys last set on THAT
// config (inherited through Clone at clone time) — rotating one member must not change any other.
func runFamily(c *vh.Ctx, e *env, idx int) {
	r := c.Rng
	stream := rand.New(rand.NewSource(r.Int63()))
	var all []byte
	var cands [][32]byte
	rd := readerFunc(func(p []byte) (int, error) {
		stream.Read(p)
		all = append(all, p...)
		if len(p) == 32 {
			var k [32]byte
			copy(k[:], p)
			cands = append(cands, k)
		}
		return len(p), nil
	})
	t0 := int64(1700000000 + r.Intn(100000))
	now := t0
	cfgs := []*tls.Config{{Rand: rd, Time: func() time.Time { return time.Unix(now, 0) }}}
	// What the runner expects to be in force on each member, from the documentation of the three key sources:
	// SetSessionTicketKeys -> exactly that list, whatever was configured before; the SessionTicketKey field set by the
	// application before first use (and no list set) -> the key derived from the field; otherwise (automatic keys, field
	// changed after use) nil = no expectation, the model alone judges.
	expect := [][][32]byte{nil}
	used := []bool{false}      // ticketKeys has run on the member
	installed := []bool{false} // the member's sessionTicketKeys are populated (explicit list, or legacy key after first use)
	var ops, kinds []string
	var tickets [][]byte
	type sealed struct {
		t     []byte
		key   [32]byte
		known bool // the 32 bytes the sealing key derives from are known
		st    []byte
	}
	newest := []*sealed{nil}
	family := func() string {
		if len(cfgs) > 1 {
			return "clone-independence"
		}
		return "keys-in-force"
	}
	setKeys := func(i int) {
		n := 1 + r.Intn(3)
		if len(expect[i]) > 0 && r.Intn(2) == 0 {
			n = 1 + r.Intn(len(expect[i])) // at most as many as before: the new set fits the old storage
		}
		ks := make([][32]byte, n)
		var it []string
		for j := range ks {
			ks[j] = key32(r)
			cands = append(cands, ks[j])
			it = append(it, vh.Bytes(ks[j][:]))
		}
		cfgs[i].SetSessionTicketKeys(ks)
		expect[i], installed[i] = ks, true
		ops = append(ops, fmt.Sprintf("FOn %d (HSetKeys %s false)", i, vh.List(it)))
		kinds = append(kinds, fmt.Sprintf("set%d", i))
	}
	setLegacy := func(i int) {
		b := key32(r)
		cands = append(cands, b)
		cfgs[i].SessionTicketKey = b
		switch {
		case installed[i]: // keys already populated: the deprecated field is not consulted any more
		case !used[i]:
			expect[i] = [][32]byte{b}
		default:
			expect[i] = nil
		}
		ops = append(ops, fmt.Sprintf("FOn %d (HSetLegacy %s)", i, vh.Bytes(b[:])))
		kinds = append(kinds, fmt.Sprintf("legacy%d", i))
	}
	advance := func() {
		dt := []int64{3600, 86400, 86401, 3 * 86400, 604800, 8 * 86400}[r.Intn(6)]
		now += dt
		ops = append(ops, fmt.Sprintf("FOn 0 (HAdvance %d%%Z)", dt))
		kinds = append(kinds, "advance")
	}
	clone := func(i int) {
		cfgs = append(cfgs, cfgs[i].Clone())
		expect = append(expect, expect[i])
		used = append(used, used[i])
		installed = append(installed, installed[i])
		newest = append(newest, nil)
		ops = append(ops, fmt.Sprintf("FClone %d", i))
		kinds = append(kinds, fmt.Sprintf("clone%d", i))
	}
	keep := &keeper{}
	exercise := func(step string) bool {
		defer keep.check(c, step)
		for i, cfg := range cfgs {
			g := genState(r, e.ders, 0)
			g.Extra = nil
			if len(g.Secret) > 12 {
				g.Secret = g.Secret[:12]
			}
			ss, err := tls.ParseSessionState(g.refBytes())
			if err != nil {
				c.Fail("codec-parse-valid", "ParseSessionState rejects a valid encoding", vh.Hex(g.refBytes()), fmt.Sprint(err), "state")
				return false
			}
			t, err := cfg.EncryptTicket(tls.ConnectionState{}, ss)
			ops = append(ops, fmt.Sprintf("FOn %d (HSeal %s %s)", i, g.coq(), optBytes(err == nil, t)))
			if err != nil {
				c.Fail("family-seal", "EncryptTicket fails on a member of a Config family", map[string]any{"history": kinds, "member": i}, fmt.Sprint(err), "ticket")
				return false
			}
			used[i] = true
			installed[i] = installed[i] || expect[i] != nil
			tickets = append(tickets, t)
			sl := &sealed{t: t, st: g.refBytes()}
			// which 32 key bytes sealed it? (independent of what the runner expects: try every key source seen so far)
			for _, k := range cands {
				if bytes.Equal(sealRef(k, t[:16], sl.st), t) {
					sl.key, sl.known = k, true
					break
				}
			}
			newest[i] = sl
			// the ticket must be sealed under the first key in force on THIS member
			if expect[i] != nil {
				if want := sealRef(expect[i][0], t[:16], sl.st); !bytes.Equal(t, want) {
					c.Fail(fmt.Sprintf("%s/seal/%s", family(), step), "a Config does not seal with the first key in force on it (the list last given to SetSessionTicketKeys on THIS config, else the key derived from its SessionTicketKey field): an earlier key source or another member of its Clone family leaked into it",
						map[string]any{"history": kinds, "member": i, "sealed_with_known_key": sl.known}, vh.Hex(t), vh.Hex(want))
					return false
				}
			}
		}
		for i, cfg := range cfgs {
			for j, sl := range newest {
				if sl == nil {
					continue
				}
				s, _ := cfg.DecryptTicket(sl.t, tls.ConnectionState{})
				obs := "None"
				if s != nil {
					obs = keep.hold(s, "family")
				}
				ops = append(ops, fmt.Sprintf("FOn %d (HOpen %s %s)", i, vh.Bytes(sl.t), obs))
				if expect[i] == nil || !sl.known {
					continue // automatic keys: the model alone judges
				}
				has := false
				for _, k := range expect[i] {
					has = has || k == sl.key
				}
				got := "nil"
				if s != nil {
					got = "state"
				}
				in := map[string]any{"history": kinds, "opening_member": i, "sealing_member": j, "ticket": vh.Hex(sl.t)}
				if has && s == nil {
					c.Fail(fmt.Sprintf("%s/open-refused/%s", family(), step), "a Config no longer opens a ticket sealed under a key that is in force on it", in, got, "state")
					return false
				}
				if !has && s != nil {
					c.Fail(fmt.Sprintf("%s/open-foreign/%s", family(), step), "a Config opens a ticket sealed under a key that is not (or no longer) configured on it: an earlier key source or a Clone relative leaked into it", in, got, "nil")
					return false
				}
				if has && s != nil {
					if b, _ := s.Bytes(); !bytes.Equal(b, sl.st) {
						c.Fail(family()+"/state", "state differs after a round trip", in, vh.Hex(b), vh.Hex(sl.st))
						return false
					}
				}
			}
		}
		return true
	}
	// the three ways keys get configured, in every order: which source comes first depends on the history index
	first := "initial"
	switch idx % 4 {
	case 0:
		setKeys(0)
	case 1:
		setLegacy(0)
		first = "legacy-field-first"
	case 2:
		first = "automatic-keys-first"
	case 3:
		setLegacy(0)
		setKeys(0) // list given before the field was ever consulted
		first = "legacy-field-then-list-before-use"
	}
	steps := 3 + r.Intn(3)
	ok := exercise(first)
	for s := 0; ok && s < steps; s++ {
		step := ""
		x := r.Intn(10)
		switch {
		case len(cfgs) < 3 && (x < 3 || (len(cfgs) == 1 && s == 1)):
			clone(r.Intn(len(cfgs)))
			step = "after-clone"
		case x == 3:
			setLegacy(r.Intn(len(cfgs)))
			step = "after-setting-legacy-field"
		case x == 4 && idx%4 != 0:
			advance()
			step = "after-clock-advance"
		default:
			i := r.Intn(len(cfgs))
			setKeys(i)
			step = "after-rotation"
			if i == 0 {
				step = "after-rotating-original"
			}
		}
		ok = exercise(step)
	}
	// modified tickets for the model: every framing variant of a member's own newest ticket (which that member can
	// open unmodified) — bytes in front (16/32/48 arbitrary, its own iv), bytes behind, the ticket twice — plus random ones
	openFor := func(i int, t []byte) {
		s, _ := cfgs[i].DecryptTicket(t, tls.ConnectionState{})
		obs := "None"
		if s != nil {
			obs = keep.hold(s, "family")
		}
		ops = append(ops, fmt.Sprintf("FOn %d (HOpen %s %s)", i, vh.Bytes(t), obs))
		tickets = append(tickets, t)
		keep.check(c, "modified-ticket-open")
	}
	if ok {
		i := r.Intn(len(cfgs))
		own := newest[i].t
		junk := make([]byte, 48)
		r.Read(junk)
		for _, k := range []int{16, 32, 48} {
			openFor(i, append(append([]byte{}, junk[:k]...), own...))
		}
		openFor(i, append(append([]byte{}, own[:16]...), own...))
		openFor(i, append(append([]byte{}, own...), junk[:16+r.Intn(32)]...))
		openFor(i, append(append([]byte{}, own...), own...))
		for k := 0; k < 2; k++ {
			openFor(r.Intn(len(cfgs)), mutateTicket(r, tickets))
		}
	}
	keep.check(c, "end")
	ops = keep.resolve(ops)
	tb := buildTables(cands, tickets)
	term := fmt.Sprintf("CFam %s %s %s [] %s %d%%Z %s", vh.List(tb.sh), vh.List(tb.hm), vh.List(tb.ks),
		vh.Bytes(append(all, make([]byte, 64)...)), t0, vh.List(ops))
	c.Case("family", term, fmt.Sprintf("fam/%s", strings.Join(kinds, ",")), len(cfgs) > 1, map[string]any{"ops": kinds})
}

// ---------- interleaved / concurrent decryptions ----------
// Tickets of different sizes (60 B .. 1.5 KiB) under one Config are decrypted in random order, several times each,
// with EncryptTicket and a rotation in between; every state ever returned is deep-compared with what it was after each
// step. Then the same on several goroutines, compared after all have finished.
func runInterleaved(c *vh.Ctx, e *env, idx int) {
	r := c.Rng
	cfg := &tls.Config{}
	k0 := key32(r)
	cfg.SetSessionTicketKeys([][32]byte{k0})
	type tk struct {
		t    []byte
		want []byte
	}
	var tks []tk
	for i, n := 0, 4+r.Intn(3); i < n; i++ {
		g := genState(r, e.ders, []int{0, 0, 1, 2, 0, 1}[(i+idx)%6])
		ss, err := tls.ParseSessionState(g.refBytes())
		if err != nil {
			c.Fail("codec-parse-valid", "ParseSessionState rejects a valid encoding", vh.Hex(g.refBytes()), fmt.Sprint(err), "state")
			return
		}
		t, err := cfg.EncryptTicket(tls.ConnectionState{}, ss)
		if err != nil {
			c.Fail("ticket-seal", "EncryptTicket fails on a valid state", g, fmt.Sprint(err), "ticket")
			return
		}
		tks = append(tks, tk{t, g.refBytes()})
	}
	keep := &keeper{}
	open := func(i int, step string) bool {
		s, _ := cfg.DecryptTicket(tks[i].t, tls.ConnectionState{})
		c.Count("interleaved-opens")
		if s == nil {
			c.Fail("ticket-roundtrip", "DecryptTicket(EncryptTicket(s)) yields no state under the same keys", vh.Hex(tks[i].t), "nil", "state")
			return false
		}
		if b, _ := s.Bytes(); !bytes.Equal(b, tks[i].want) {
			c.Fail("ticket-roundtrip", "DecryptTicket(EncryptTicket(s)) != s", vh.Hex(tks[i].t), vh.Hex(b), vh.Hex(tks[i].want))
			return false
		}
		keep.hold(s, "interleaved")
		return keep.check(c, step)
	}
	for round := 0; round < 3; round++ {
		for _, i := range r.Perm(len(tks)) {
			if !open(i, fmt.Sprintf("decrypting a ticket of %d bytes", len(tks[i].t))) {
				return
			}
		}
		switch round {
		case 0: // sealing in between
			g := genState(r, e.ders, 0)
			if ss, err := tls.ParseSessionState(g.refBytes()); err == nil {
				cfg.EncryptTicket(tls.ConnectionState{}, ss)
			}
			keep.check(c, "EncryptTicket")
		case 1: // a rotation that keeps the sealing key
			cfg.SetSessionTicketKeys([][32]byte{key32(r), k0})
			keep.check(c, "SetSessionTicketKeys")
		}
	}
	// concurrently: each goroutine decrypts every ticket several times in its own order and keeps what it got
	const G = 4
	type got struct {
		s *tls.SessionState
		i int
	}
	res := make([][]got, G)
	orders := make([][]int, G)
	for g := range orders {
		for rep := 0; rep < 3; rep++ {
			orders[g] = append(orders[g], r.Perm(len(tks))...)
		}
	}
	var wg sync.WaitGroup
	for g := 0; g < G; g++ {
		wg.Add(1)
		go func(g int) {
			defer wg.Done()
			for _, i := range orders[g] {
				s, _ := cfg.DecryptTicket(tks[i].t, tls.ConnectionState{})
				res[g] = append(res[g], got{s, i})
			}
		}(g)
	}
	wg.Wait()
	for g := range res {
		for _, x := range res[g] {
			c.Count("concurrent-opens")
			var b []byte
			if x.s != nil {
				b, _ = x.s.Bytes()
			}
			if x.s == nil || !bytes.Equal(b, tks[x.i].want) {
				c.Fail("state-value-changed/concurrent", "a SessionState returned by DecryptTicket on one goroutine differs from the sealed state once all goroutines have finished",
					map[string]any{"goroutines": G, "ticket": vh.Hex(tks[x.i].t)}, vh.Hex(b), vh.Hex(tks[x.i].want))
				return
			}
		}
	}
	keep.check(c, "concurrent decryptions")
}

package main

import (
	"bytes"
	"crypto/x509"
	"fmt"
	"io"
	"net"
	"time"

	tls "github.com/refraction-networking/utls"
	"verif/harness/vh"
)

type oneCache struct{ cs *tls.ClientSessionState }

func (o *oneCache) Get(string) (*tls.ClientSessionState, bool) { return o.cs, o.cs != nil }
func (o *oneCache) Put(string, *tls.ClientSessionState)        {}

// A session that never existed: the server-side state is sealed into a ticket with Config.EncryptTicket, the
// client-side state is forged with MakeClientSessionState + setters.  The resumed connection (loopback TCP) must
// carry exactly the supplied version, suite and master secret.
func runResume(c *vh.Ctx, e *env) {
	pki := vh.NewTestPKI("c35.test")
	leaf, _ := x509.ParseCertificate(pki.LeafDER)
	roots := x509.NewCertPool()
	roots.AddCert(pki.CACert)
	srvCert := tls.Certificate{Certificate: [][]byte{pki.LeafDER}, PrivateKey: pki.LeafKey}
	type sc struct {
		name  string
		vers  uint16
		suite uint16
		ems   bool
		id    tls.ClientHelloID
	}
	scen := []sc{
		{"tls12-ems-golang", tls.VersionTLS12, tls.TLS_ECDHE_ECDSA_WITH_AES_128_GCM_SHA256, true, tls.HelloGolang},
		{"tls12-ems-chacha", tls.VersionTLS12, tls.TLS_ECDHE_ECDSA_WITH_CHACHA20_POLY1305_SHA256, true, tls.HelloGolang},
		{"tls12-ems-aes256", tls.VersionTLS12, tls.TLS_ECDHE_ECDSA_WITH_AES_256_GCM_SHA384, true, tls.HelloGolang},
		{"tls13-aes128", tls.VersionTLS13, tls.TLS_AES_128_GCM_SHA256, false, tls.HelloGolang},
		{"tls13-chacha", tls.VersionTLS13, tls.TLS_CHACHA20_POLY1305_SHA256, false, tls.HelloGolang},
	}
	for _, s := range scen {
		r := c.Rng
		key := key32(r)
		srv := &tls.Config{Certificates: []tls.Certificate{srvCert}, MinVersion: tls.VersionTLS12}
		srv.SetSessionTicketKeys([][32]byte{key})
		now := uint64(time.Now().Unix())
		secretLen := 48
		if s.vers == tls.VersionTLS13 {
			secretLen = 32
		}
		secret := make([]byte, secretLen)
		r.Read(secret)
		g := &gstate{Version: s.vers, IsClient: false, Suite: s.suite, CreatedAt: now, Secret: secret, EMS: s.ems}
		ss, err := tls.ParseSessionState(g.refBytes())
		if err != nil {
			c.Fail("resume-setup/"+s.name, "ParseSessionState rejects the server-side state", vh.Hex(g.refBytes()), fmt.Sprint(err), "state")
			continue
		}
		ticket, err := srv.EncryptTicket(tls.ConnectionState{}, ss)
		if err != nil {
			c.Fail("resume-setup/"+s.name, "EncryptTicket failed", g, fmt.Sprint(err), "ticket")
			continue
		}
		css := tls.MakeClientSessionState(ticket, s.vers, s.suite, secret, []*x509.Certificate{leaf}, [][]*x509.Certificate{{leaf, pki.CACert}})
		css.SetEMS(s.ems)
		css.SetCreatedAt(now)
		if s.vers == tls.VersionTLS13 {
			css.SetUseBy(now + 3600)
			css.SetAgeAdd(r.Uint32())
		}
		if css.Vers() != s.vers || css.CipherSuite() != s.suite || !bytes.Equal(css.MasterSecret(), secret) || css.EMS() != s.ems || !bytes.Equal(css.SessionTicket(), ticket) {
			c.Fail("forged-getters/"+s.name, "getters of a forged ClientSessionState do not return what was supplied", s.name, nil, nil)
		}
		ln, err := net.Listen("tcp", "127.0.0.1:0")
		if err != nil {
			c.Fail("resume-listen", "cannot listen on loopback", nil, fmt.Sprint(err), nil)
			return
		}
		type sres struct {
			cs  tls.ConnectionState
			err error
		}
		done := make(chan sres, 1)
		go func() {
			conn, err := ln.Accept()
			if err != nil {
				done <- sres{err: err}
				return
			}
			defer conn.Close()
			conn.SetDeadline(time.Now().Add(10 * time.Second))
			sconn := tls.Server(conn, srv)
			if err := sconn.Handshake(); err != nil {
				done <- sres{err: err}
				return
			}
			buf := make([]byte, 4)
			io.ReadFull(sconn, buf)
			sconn.Write(buf)
			done <- sres{cs: sconn.ConnectionState()}
		}()
		raw, err := net.Dial("tcp", ln.Addr().String())
		if err != nil {
			c.Fail("resume-dial", "cannot dial loopback", nil, fmt.Sprint(err), nil)
			ln.Close()
			return
		}
		raw.SetDeadline(time.Now().Add(10 * time.Second))
		ccfg := &tls.Config{ServerName: "c35.test", RootCAs: roots, ClientSessionCache: &oneCache{css}, MinVersion: tls.VersionTLS12, MaxVersion: s.vers}
		uc := tls.UClient(raw, ccfg, s.id)
		herr := uc.Handshake()
		var echo [4]byte
		if herr == nil {
			uc.Write([]byte("ping"))
			io.ReadFull(uc, echo[:])
		}
		sr := <-done
		raw.Close()
		ln.Close()
		c.Count("resumptions")
		if herr != nil || sr.err != nil {
			c.Fail("resume/"+s.name, "handshake with a forged ClientSessionState failed", s.name, fmt.Sprint(herr, " / ", sr.err), "resumed connection")
			continue
		}
		cs := uc.ConnectionState()
		got := map[string]any{"didResume": cs.DidResume, "version": cs.Version, "suite": cs.CipherSuite, "serverDidResume": sr.cs.DidResume, "echo": string(echo[:])}
		if !cs.DidResume || !sr.cs.DidResume || cs.Version != s.vers || sr.cs.Version != s.vers || string(echo[:]) != "ping" {
			c.Fail("resume/"+s.name, "connection from a forged ClientSessionState did not resume with the supplied version", s.name, got, "DidResume, version "+fmt.Sprint(s.vers))
			continue
		}
		if s.vers == tls.VersionTLS12 {
			if cs.CipherSuite != s.suite || sr.cs.CipherSuite != s.suite {
				c.Fail("resume/"+s.name, "resumed connection does not use the supplied cipher suite", s.name, got, s.suite)
			}
			if !bytes.Equal(uc.HandshakeState.MasterSecret, secret) {
				c.Fail("resume/"+s.name, "resumed connection does not carry the supplied master secret", s.name, vh.Hex(uc.HandshakeState.MasterSecret), vh.Hex(secret))
			}
			// both ends derive the same exporter value only if the server recovered the same master secret from the ticket
			a, e1 := cs.ExportKeyingMaterial("c35", nil, 32)
			b, e2 := sr.cs.ExportKeyingMaterial("c35", nil, 32)
			if e1 != nil || e2 != nil || !bytes.Equal(a, b) {
				c.Fail("resume/"+s.name, "client and server exporters differ on the resumed connection", s.name, fmt.Sprint(e1, e2), "equal exporters")
			}
		}
	}
}

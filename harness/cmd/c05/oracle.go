package main

import (
	"fmt"
	"strings"

	tls "github.com/refraction-networking/utls"
	"verif/harness/vh"
)

// ---- independent ClientHello framing parser (RFC 8446 4.1.2), not the library's ----

type pext struct {
	id   uint16
	body []byte
}

type parsed struct {
	vers      uint16
	random    []byte
	sid       []byte
	suites    []byte
	comp      []byte
	hasExts   bool
	extBlock  []byte
	exts      []pext
	padBodies [][]byte
}

type rd struct {
	b  []byte
	ok bool
}

func (r *rd) take(n int) []byte {
	if !r.ok || n < 0 || len(r.b) < n {
		r.ok = false
		return nil
	}
	x := r.b[:n]
	r.b = r.b[n:]
	return x
}
func (r *rd) u8() int {
	x := r.take(1)
	if x == nil {
		return 0
	}
	return int(x[0])
}
func (r *rd) u16() int {
	x := r.take(2)
	if x == nil {
		return 0
	}
	return int(x[0])<<8 | int(x[1])
}

// parseHello accepts exactly: type 1, uint24 length covering the rest, the
// fixed fields, and an optional extension block whose length prefix covers
// the rest and which splits exactly into (id, uint16-prefixed body) entries.
func parseHello(raw []byte) (parsed, bool) {
	var p parsed
	r := &rd{raw, true}
	if r.u8() != 1 {
		return p, false
	}
	l := r.take(3)
	if !r.ok || int(l[0])<<16|int(l[1])<<8|int(l[2]) != len(r.b) {
		return p, false
	}
	p.vers = uint16(r.u16())
	p.random = r.take(32)
	p.sid = r.take(r.u8())
	p.suites = r.take(r.u16())
	p.comp = r.take(r.u8())
	if !r.ok || len(p.suites)%2 != 0 {
		return p, false
	}
	if len(r.b) == 0 {
		return p, true
	}
	p.hasExts = true
	n := r.u16()
	if !r.ok || n != len(r.b) {
		return p, false
	}
	p.extBlock = r.b
	for len(r.b) > 0 {
		id := r.u16()
		body := r.take(r.u16())
		if !r.ok {
			return p, false
		}
		p.exts = append(p.exts, pext{uint16(id), body})
		if id == 21 {
			p.padBodies = append(p.padBodies, body)
		}
	}
	return p, true
}

func allZero(b []byte) bool {
	for _, x := range b {
		if x != 0 {
			return false
		}
	}
	return true
}

// common part of the oracle: framing, at most one padding extension, zero body.
// Returns the unpadded handshake-message length and the padding body length (-1: none).
func oracleCommon(c *vh.Ctx, key string, raw []byte) (unpadded, body int, ok bool) {
	p, fine := parseHello(raw)
	if !fine {
		c.Fail(key, "Hello.Raw is not a well-framed ClientHello (a length prefix disagrees with its body)", key, vh.Hex(raw), "exact framing")
		return 0, 0, false
	}
	if len(p.padBodies) > 1 {
		c.Fail(key, "padding extension duplicated in the emitted ClientHello", key, len(p.padBodies), "at most one")
		return 0, 0, false
	}
	body = -1
	unpadded = len(raw)
	if len(p.padBodies) == 1 {
		body = len(p.padBodies[0])
		unpadded -= 4 + body
		if !allZero(p.padBodies[0]) {
			c.Fail(key, "padding body is not all zero", key, vh.Hex(p.padBodies[0]), "zero bytes")
		}
	}
	return unpadded, body, true
}

// padTo-style expectation shared by BoringPaddingStyle (target 512, active only
// above 255) and AlwaysPadToLen(target).
func expectPadTo(c *vh.Ctx, key, policy string, raw []byte, unpadded, body, target int, active bool) {
	in := map[string]any{"case": key, "unpadded_len": unpadded, "policy": policy}
	if active && unpadded < target {
		missing := target - unpadded
		switch {
		case body < 0:
			c.Fail(key, "unpadded length calls for padding but no padding extension was sent", in, len(raw), target)
		case missing >= 5 && len(raw) != target:
			c.Fail(key, "padded ClientHello does not have the target length", in, len(raw), target)
		case missing < 5 && body != 1:
			c.Fail(key, "fewer than 5 bytes missing: padding body must be 1 byte", in, body, 1)
		}
	} else if body >= 0 {
		c.Fail(key, "padding extension sent although the policy calls for none", in, map[string]any{"len": len(raw), "padding_body": body}, "no padding extension")
	}
}

// property text, first sentence
func oracleBoring(c *vh.Ctx, key string, raw []byte) int {
	u, body, ok := oracleCommon(c, key, raw)
	if !ok {
		return 0
	}
	expectPadTo(c, key, "BoringPaddingStyle", raw, u, body, 512, u > 255)
	return u
}

func oracleAlways(c *vh.Ctx, key string, raw []byte, target int) int {
	u, body, ok := oracleCommon(c, key, raw)
	if !ok {
		return 0
	}
	expectPadTo(c, key, fmt.Sprintf("AlwaysPadToLen(%d)", target), raw, u, body, target, true)
	return u
}

// ---- custom specs ----

func genExt(id uint16, n int) *tls.GenericExtension {
	d := make([]byte, n)
	for i := range d {
		d[i] = byte(1 + i%251) // non-zero filler: a padding body copied from here would be noticed
	}
	return &tls.GenericExtension{Id: id, Data: d}
}

func customSpec(exts ...tls.TLSExtension) *tls.ClientHelloSpec {
	return &tls.ClientHelloSpec{
		TLSVersMin: tls.VersionTLS12, TLSVersMax: tls.VersionTLS12,
		CipherSuites:       []uint16{0xc02b, 0xc02f, 0x009c, 0x002f},
		CompressionMethods: []uint8{0},
		Extensions:         exts,
	}
}

// layout of the sweep spec: two generic extensions around/before/after the padding extension
func sweepSpec(pos, d int, pad *tls.UtlsPaddingExtension) *tls.ClientHelloSpec {
	a, b := genExt(0x4a4a, d/2), genExt(0x5b5b, d-d/2)
	sni := &tls.SNIExtension{}
	switch pos {
	case 0:
		return customSpec(pad, sni, a, b)
	case 1:
		return customSpec(sni, a, pad, b)
	default:
		return customSpec(sni, a, b, pad)
	}
}

func runSweep(c *vh.Ctx) {
	// measure the unpadded length with empty generic bodies
	probe := sweepSpec(2, 0, &tls.UtlsPaddingExtension{GetPaddingLen: tls.BoringPaddingStyle})
	uc, err := buildConn(probe, variant{sni: 9, sid: -1}, c.Seed)
	if err != nil {
		c.Fail("sweep/probe", "custom spec does not build", nil, fmt.Sprint(err), "ClientHello")
		return
	}
	base, _, _ := oracleCommon(c, "sweep/probe", uc.HandshakeState.Hello.Raw)
	for L := 200; L <= 600; L++ {
		if c.Tier == "quick" {
			near := (L >= 254 && L <= 258) || (L >= 505 && L <= 514)
			if !near && L%10 != int(c.Seed%10+10)%10 {
				continue
			}
		}
		for pos := 0; pos < 3; pos++ {
			if c.Tier == "quick" && pos != L%3 && !(L >= 507 && L <= 512) {
				continue
			}
			key := fmt.Sprintf("sweep/L%d/pos%d", L, pos)
			spec := sweepSpec(pos, L-base, &tls.UtlsPaddingExtension{GetPaddingLen: tls.BoringPaddingStyle})
			pads := padInfos(spec)
			uc, err := buildConn(spec, variant{sni: 9, sid: -1}, c.Seed+int64(L))
			if err != nil {
				c.Fail(key, "custom spec does not build", key, fmt.Sprint(err), "ClientHello")
				continue
			}
			raw := uc.HandshakeState.Hello.Raw
			u := oracleBoring(c, key, raw)
			if u != L {
				c.Fail(key, "runner: sweep did not hit the intended unpadded length", key, u, L)
			}
			emitCase(c, "sweep", key, uc, nil, pads, 0, L > 255 && L < 512)
		}
	}
}

// padding configurations no parrot uses: AlwaysPadToLen directly, nil functor
// with hand-set state, two padding extensions, zero-length neighbours that make
// the bufio buffer exactly full before the padding extension is read
func runCustom(c *vh.Ctx) {
	probe := sweepSpec(2, 0, &tls.UtlsPaddingExtension{})
	uc, err := buildConn(probe, variant{sni: 9, sid: -1}, c.Seed)
	if err != nil {
		c.Fail("custom/probe", "custom spec does not build", nil, fmt.Sprint(err), "ClientHello")
		return
	}
	base, _, _ := oracleCommon(c, "custom/probe", uc.HandshakeState.Hello.Raw)

	// AlwaysPadToLen(n) with the unpadded length around n
	targets := []int{0, 300, 517}
	if c.Tier != "quick" {
		targets = append(targets, 1, 120, 200, 256, 400, 512, 700, 1000, 1500)
	}
	for _, n := range append(targets, -5) {
		for _, delta := range []int{-300, -40, -7, -6, -5, -4, -3, -2, -1, 0, 1, 30} {
			u := n + delta
			if u < base {
				if delta != -300 {
					continue
				}
				u = base
			}
			pos := (u + n + 300) % 3
			key := fmt.Sprintf("always/%d/u%d/pos%d", n, u, pos)
			pe := &tls.UtlsPaddingExtension{GetPaddingLen: tls.AlwaysPadToLen(n), PaddingLen: 77, WillPad: true}
			spec := sweepSpec(pos, u-base, pe)
			pads := padInfos(spec)
			uc, err := buildConn(spec, variant{sni: 9, sid: -1}, c.Seed+int64(u))
			if err != nil {
				c.Fail(key, "custom spec does not build", key, fmt.Sprint(err), "ClientHello")
				continue
			}
			raw := uc.HandshakeState.Hello.Raw
			oracleAlways(c, key, raw, n)
			emitCase(c, "always", key, uc, nil, pads, 0, u < n)
		}
	}

	// nil functor: the extension is sent as its fields say
	for _, st := range []struct {
		l int
		w bool
	}{{0, false}, {9, false}, {0, true}, {1, true}, {7, true}, {255, true}, {256, true}, {300, true}} {
		for pos := 0; pos < 3; pos++ {
			if c.Tier == "quick" && pos != st.l%3 {
				continue
			}
			key := fmt.Sprintf("manual/%d/%v/pos%d", st.l, st.w, pos)
			pe := &tls.UtlsPaddingExtension{PaddingLen: st.l, WillPad: st.w}
			spec := sweepSpec(pos, 40, pe)
			pads := padInfos(spec)
			uc, err := buildConn(spec, variant{sni: 9, sid: -1}, c.Seed+int64(st.l))
			if err != nil {
				c.Fail(key, "custom spec does not build", key, fmt.Sprint(err), "ClientHello")
				continue
			}
			raw := uc.HandshakeState.Hello.Raw
			_, body, ok := oracleCommon(c, key, raw)
			if ok && ((st.w && body != st.l) || (!st.w && body >= 0)) {
				c.Fail(key, "padding extension with a nil functor not sent as configured", key, body, st.l)
			}
			emitCase(c, "manual", key, uc, nil, pads, 0, st.w)
		}
	}

	// zero-length extensions: the buffer is exactly full when a later extension is read
	type zl struct {
		name string
		exts func() []tls.TLSExtension
		sni  int
	}
	pad := func(f func(int) (int, bool)) *tls.UtlsPaddingExtension {
		return &tls.UtlsPaddingExtension{GetPaddingLen: f}
	}
	for _, z := range []zl{
		{"only-pad-none", func() []tls.TLSExtension { return []tls.TLSExtension{pad(tls.BoringPaddingStyle)} }, 9},
		{"only-pad-always", func() []tls.TLSExtension { return []tls.TLSExtension{pad(tls.AlwaysPadToLen(300))} }, 9},
		{"emptysni-pad", func() []tls.TLSExtension {
			return []tls.TLSExtension{&tls.SNIExtension{}, pad(tls.BoringPaddingStyle)}
		}, 0},
		{"gen-pad-emptysni", func() []tls.TLSExtension {
			return []tls.TLSExtension{genExt(0x4a4a, 30), pad(tls.BoringPaddingStyle), &tls.SNIExtension{}}
		}, 0},
		{"gen-emptysni-pad300", func() []tls.TLSExtension {
			return []tls.TLSExtension{genExt(0x4a4a, 200), &tls.SNIExtension{}, pad(tls.BoringPaddingStyle), &tls.SNIExtension{}}
		}, 0},
		{"no-extensions", func() []tls.TLSExtension { return nil }, 9},
	} {
		key := "edge/" + z.name
		spec := customSpec(z.exts()...)
		pads := padInfos(spec)
		uc, err := buildConn(spec, variant{sni: z.sni, sid: -1}, c.Seed)
		if err != nil {
			c.Fail(key, "custom spec does not build", key, fmt.Sprint(err), "ClientHello")
			continue
		}
		raw := uc.HandshakeState.Hello.Raw
		if z.name == "only-pad-always" {
			oracleAlways(c, key, raw, 300)
		} else {
			oracleBoring(c, key, raw)
		}
		emitCase(c, "edge", key, uc, nil, pads, 0, true)
	}

	// two padding extensions: never both on the wire
	for _, d := range []int{0, 200, 450} {
		for v := 0; v < 4; v++ {
			if c.Tier == "quick" && d == 200 {
				continue
			}
			key := fmt.Sprintf("dup/%d/%d", d, v)
			p1 := &tls.UtlsPaddingExtension{GetPaddingLen: tls.BoringPaddingStyle}
			p2 := &tls.UtlsPaddingExtension{GetPaddingLen: tls.BoringPaddingStyle}
			if v == 1 {
				p2 = &tls.UtlsPaddingExtension{PaddingLen: 3, WillPad: true}
			}
			if v == 3 { // both already set to pad, no functor: nothing but the check keeps them apart
				p1 = &tls.UtlsPaddingExtension{PaddingLen: 5, WillPad: true}
				p2 = &tls.UtlsPaddingExtension{PaddingLen: 3, WillPad: true}
			}
			var spec *tls.ClientHelloSpec
			if v == 2 {
				spec = customSpec(p1, &tls.SNIExtension{}, genExt(0x4a4a, d), p2, &tls.UtlsPaddingExtension{})
			} else {
				spec = customSpec(&tls.SNIExtension{}, p1, genExt(0x4a4a, d), p2)
			}
			pads := padInfos(spec)
			uc, err := buildConn(spec, variant{sni: 9, sid: -1}, c.Seed)
			if err == nil {
				// accepted: then at most one of them may be on the wire (checked by oracleCommon);
				// the model (which returns the error) flags the changed behaviour as a mismatch
				oracleCommon(c, key, uc.HandshakeState.Hello.Raw)
			}
			if err == nil || strings.Contains(err.Error(), "multiple padding extensions") {
				emitCase(c, "dup", key, uc, err, pads, 0, true)
			} else {
				c.Fail(key, "spec with two padding extensions failed for another reason", key, fmt.Sprint(err), "multiple padding extensions")
			}
		}
	}
}

// ---- fingerprinted padded captures ----

func record(msg []byte) []byte {
	return append([]byte{0x16, 0x03, 0x01, byte(len(msg) >> 8), byte(len(msg))}, msg...)
}

func runFingerprint(c *vh.Ctx, ids []tls.ClientHelloID) {
	for _, id := range ids {
		name := idName(id)
		spec, _ := tls.UTLSIdToSpec(id)
		uc0, err := buildConn(&spec, variant{sni: 1, sid: -1}, c.Seed)
		if err != nil {
			continue
		}
		base, _, _ := oracleCommon(c, "fp/"+name+"/probe", uc0.HandshakeState.Hello.Raw)
		// server-name lengths that leave a non-empty padding extension in the capture
		var cand []int
		for s := 1; s <= 253; s++ {
			if u := base + s - 1; u > 255 && u < 512 {
				cand = append(cand, s)
			}
		}
		if len(cand) == 0 {
			c.Count("fp-no-padded-capture")
			continue
		}
		picks := []int{cand[c.Rng.Intn(len(cand))]}
		if c.Tier != "quick" {
			picks = append(picks, cand[0], cand[len(cand)-1])
			for i := 0; i < 12; i++ {
				picks = append(picks, cand[c.Rng.Intn(len(cand))])
			}
		}
		seen := map[int]bool{}
		for _, s := range picks {
			if seen[s] {
				continue
			}
			seen[s] = true
			fpOne(c, id, s)
		}
	}
}

func fpOne(c *vh.Ctx, id tls.ClientHelloID, s int) {
	name := idName(id)
	key := fmt.Sprintf("fp/%s/sni%d", name, s)
	spec, _ := tls.UTLSIdToSpec(id)
	uc1, err := buildConn(&spec, variant{sni: s, sid: -1}, c.Seed+int64(s))
	if err != nil {
		return
	}
	cap1 := uc1.HandshakeState.Hello.Raw
	u1, body1, ok := oracleCommon(c, key+"/capture", cap1)
	if !ok || body1 < 1 {
		c.Count("fp-capture-without-padding")
		return
	}
	rec := record(cap1)
	f := &tls.Fingerprinter{AllowBluntMimicry: true}
	spec2, err := f.FingerprintClientHello(rec)
	if err != nil {
		c.Fail(key, "FingerprintClientHello rejects the parrot's own ClientHello", key, fmt.Sprint(err), "spec")
		return
	}
	npad := 0
	for _, e := range spec2.Extensions {
		if pe, ok := e.(*tls.UtlsPaddingExtension); ok {
			npad++
			if pol, n := polOf(pe); pol != "always" || n != len(rec)-5 {
				c.Fail(key, "FromRaw did not install AlwaysPadToLen(len(raw)-5) on the padding extension", key, fmt.Sprint(pol, " ", n), fmt.Sprint("always ", len(rec)-5))
			}
		}
	}
	if npad != 1 {
		c.Fail(key, "fingerprinted spec does not carry exactly one padding extension", key, npad, 1)
		return
	}
	for _, ds := range []int{0, 2, -1} {
		s2 := s + ds
		if s2 < 1 || (c.Tier == "quick" && ds < 0) {
			continue
		}
		k2 := fmt.Sprintf("%s/re%d", key, s2)
		sp, err := f.FingerprintClientHello(rec) // fresh spec per connection
		if err != nil {
			return
		}
		pads := map[*tls.UtlsPaddingExtension]padInfo{}
		for _, e := range sp.Extensions {
			if pe, ok := e.(*tls.UtlsPaddingExtension); ok {
				pads[pe] = padInfo{pol: "fromraw", plen: pe.PaddingLen, will: pe.WillPad}
			}
		}
		uc2, err := buildConn(sp, variant{sni: s2, sid: -1}, c.Seed+int64(s2)+1)
		if err != nil {
			c.Fail(k2, "fingerprinted spec does not build", k2, fmt.Sprint(err), "ClientHello")
			continue
		}
		raw2 := uc2.HandshakeState.Hello.Raw
		// declared policy of the fingerprinted spec: pad to the captured length
		u2 := oracleAlways(c, k2, raw2, len(cap1))
		if ds == 0 {
			if u2 != u1 {
				// per-connection sizes differ although the server name has the captured length
				c.Count("fp-unpadded-differs")
				c.Extra["fp-unpadded-differs/"+name] = fmt.Sprintf("%d vs %d", u1, u2)
			} else if len(raw2) != len(cap1) {
				c.Fail(k2, "fingerprinted padded capture does not reproduce the captured total length",
					map[string]any{"parrot": name, "sni_len": s, "captured_len": len(cap1), "captured_padding_body": body1}, len(raw2), len(cap1))
			}
		}
		emitCase(c, "fingerprint", k2, uc2, nil, pads, len(rec), true)
	}
}

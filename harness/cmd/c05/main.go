// c05: correspondence runner and Go-side oracle for property C05
// ("Padding makes the ClientHello length follow the declared padding policy").
//
// Real UConns (tls.UClient over a dummy net.Conn; BuildHandshakeState only, no
// network) are built for every parrot whose spec carries a padding extension,
// over server-name lengths, ALPN and session-id variants, for custom specs that
// hit chosen unpadded lengths exactly, and for specs fingerprinted from padded
// captures.  For each, the header fields and the extension list are handed to
// the Coq model (Corr/C05Corr.v), which must reproduce Hello.Raw byte for
// byte; independently the oracle below, written from the property text, is
// applied to the raw bytes the implementation produced.
package main

import (
	"fmt"
	"io"
	"math/rand"
	"net"
	"sort"
	"strings"
	"time"

	tls "github.com/refraction-networking/utls"
	"verif/harness/vh"
)

func main() { vh.Main(map[string]vh.Suite{"C05": {Corr: "Corr.C05Corr", Run: run}}) }

// ---- dummy transport: never used, BuildHandshakeState does no I/O ----
type nullConn struct{}

func (nullConn) Read(b []byte) (int, error)         { return 0, io.EOF }
func (nullConn) Write(b []byte) (int, error)        { return len(b), nil }
func (nullConn) Close() error                       { return nil }
func (nullConn) LocalAddr() net.Addr                { return &net.TCPAddr{} }
func (nullConn) RemoteAddr() net.Addr               { return &net.TCPAddr{} }
func (nullConn) SetDeadline(t time.Time) error      { return nil }
func (nullConn) SetReadDeadline(t time.Time) error  { return nil }
func (nullConn) SetWriteDeadline(t time.Time) error { return nil }

// every exported ClientHelloID with a fixed spec; the ones carrying a padding
// extension are selected at run time from the spec itself
var allIDs = []tls.ClientHelloID{
	tls.HelloFirefox_55, tls.HelloFirefox_56, tls.HelloFirefox_63, tls.HelloFirefox_65, tls.HelloFirefox_99,
	tls.HelloFirefox_102, tls.HelloFirefox_105, tls.HelloFirefox_120,
	tls.HelloChrome_58, tls.HelloChrome_62, tls.HelloChrome_70, tls.HelloChrome_72, tls.HelloChrome_83,
	tls.HelloChrome_87, tls.HelloChrome_96, tls.HelloChrome_100, tls.HelloChrome_102, tls.HelloChrome_106_Shuffle,
	tls.HelloChrome_100_PSK, tls.HelloChrome_112_PSK_Shuf, tls.HelloChrome_114_Padding_PSK_Shuf,
	tls.HelloChrome_115_PQ, tls.HelloChrome_115_PQ_PSK, tls.HelloChrome_120, tls.HelloChrome_120_PQ,
	tls.HelloChrome_131, tls.HelloChrome_133,
	tls.HelloIOS_11_1, tls.HelloIOS_12_1, tls.HelloIOS_13, tls.HelloIOS_14,
	tls.HelloAndroid_11_OkHttp, tls.HelloEdge_85, tls.HelloEdge_106, tls.HelloSafari_16_0,
	tls.Hello360_7_5, tls.Hello360_11_0, tls.HelloQQ_11_1,
}

func idName(id tls.ClientHelloID) string { return id.Client + "_" + id.Version }

// padInfo: what the runner knows about a padding extension before the build
type padInfo struct {
	pol  string // "none" | "boring" | "always" | "fromraw" | "added" | "unknown"
	n    int    // AlwaysPadToLen argument when pol == "always"
	plen int
	will bool
}

// reference functors, written from the documentation of the two policies
func refPadTo(target, u int, active bool) (int, bool) {
	if active && u < target {
		if target-u >= 5 {
			return target - u - 4, true
		}
		return 1, true
	}
	return 0, false
}

const probeMax = 1300

// polOf classifies a GetPaddingLen functor by its behaviour on every unpadded
// length up to probeMax (function values cannot be compared, and inlining gives
// each AlwaysPadToLen call site its own closure code).
func polOf(pe *tls.UtlsPaddingExtension) (string, int) {
	f := pe.GetPaddingLen
	if f == nil {
		return "none", 0
	}
	same := func(ref func(int) (int, bool)) bool {
		for u := 0; u <= probeMax; u++ {
			l1, w1 := f(u)
			l2, w2 := ref(u)
			if l1 != l2 || w1 != w2 {
				return false
			}
		}
		return true
	}
	if same(func(u int) (int, bool) { return refPadTo(512, u, u > 255) }) {
		return "boring", 0
	}
	// AlwaysPadToLen(n): n is the first length that is not padded
	n := 0
	if l0, w0 := f(0); w0 {
		n = l0 + 4
		if l0 == 1 {
			for n = 1; n <= 5; n++ {
				if _, w := f(n); !w {
					break
				}
			}
		}
	}
	if same(func(u int) (int, bool) { return refPadTo(n, u, true) }) {
		if l, w := f(n); l == 0 && !w {
			return "always", n
		}
	}
	return "unknown", 0
}

func hostOfLen(n int) string {
	if n <= 0 {
		return ""
	}
	// labels of at most 63 characters; never ends in a dot, never looks like an IP
	var sb strings.Builder
	for sb.Len() < n {
		rem := n - sb.Len()
		l := 63
		if rem <= 63 {
			l = rem
		} else if rem == 64 {
			l = 62 // leave room for ".x"
		}
		sb.WriteString(strings.Repeat("a", l))
		if sb.Len() < n {
			sb.WriteByte('.')
		}
	}
	return sb.String()
}

type seedReader struct{ r *rand.Rand }

func (s seedReader) Read(b []byte) (int, error) { return s.r.Read(b) }

type variant struct {
	sni  int      // server name length
	alpn []string // nil: leave the spec's ALPN alone
	sid  int      // -1: leave the 32-byte session id; else replace by this many bytes
}

func (v variant) String() string {
	a := "-"
	if v.alpn != nil {
		a = fmt.Sprintf("%d:%d", len(v.alpn), len(strings.Join(v.alpn, "")))
	}
	return fmt.Sprintf("sni%d/alpn%s/sid%d", v.sni, a, v.sid)
}

// buildConn applies spec to a fresh UConn and marshals the ClientHello.
func buildConn(spec *tls.ClientHelloSpec, v variant, seed int64) (*tls.UConn, error) {
	cfg := &tls.Config{ServerName: hostOfLen(v.sni), InsecureSkipVerify: true, OmitEmptyPsk: true,
		Rand: seedReader{rand.New(rand.NewSource(seed))}}
	uc := tls.UClient(nullConn{}, cfg, tls.HelloCustom)
	if v.alpn != nil {
		for _, e := range spec.Extensions {
			if a, ok := e.(*tls.ALPNExtension); ok {
				a.AlpnProtocols = v.alpn
			}
		}
	}
	if err := uc.ApplyPreset(spec); err != nil {
		return uc, fmt.Errorf("ApplyPreset: %w", err)
	}
	if v.sid >= 0 {
		sid := make([]byte, v.sid)
		for i := range sid {
			sid[i] = byte(0xa0 + i)
		}
		uc.HandshakeState.Hello.SessionId = sid
	}
	return uc, uc.BuildHandshakeState()
}

func padInfos(spec *tls.ClientHelloSpec) map[*tls.UtlsPaddingExtension]padInfo {
	m := map[*tls.UtlsPaddingExtension]padInfo{}
	for _, e := range spec.Extensions {
		if pe, ok := e.(*tls.UtlsPaddingExtension); ok {
			pol, n := polOf(pe)
			m[pe] = padInfo{pol: pol, n: n, plen: pe.PaddingLen, will: pe.WillPad}
		}
	}
	return m
}

// ---- Coq emission ----

func coqPol(pi padInfo) string {
	switch pi.pol {
	case "none":
		return "CPNone"
	case "boring", "fromraw":
		return "CPBoring"
	case "always":
		if pi.n < 0 {
			return fmt.Sprintf("(CPAlways true %d)", -pi.n)
		}
		return fmt.Sprintf("(CPAlways false %d)", pi.n)
	}
	return "CPNone"
}

// items: the extension list of the UConn as model items (lengths only; the
// bytes are cut out of the data by the checker). bodies is filled through the
// extensions' own Read only when there is no Raw to cut from.
func items(uc *tls.UConn, pads map[*tls.UtlsPaddingExtension]padInfo, haveRaw bool) (out []string, total int, bodies []byte, ok bool) {
	for _, e := range uc.Extensions {
		if pe, isPad := e.(*tls.UtlsPaddingExtension); isPad {
			pi, known := pads[pe]
			if !known || pi.pol == "unknown" {
				return nil, 0, nil, false
			}
			obs := pe.Len()
			if !haveRaw {
				obs = 0
			}
			if pi.pol == "added" {
				out = append(out, fmt.Sprintf("CAdded %d", obs))
				total += obs
				continue
			}
			out = append(out, fmt.Sprintf("CPad %s %d %s %d", coqPol(pi), pi.plen, vh.Bool(pi.will), obs))
			total += obs
			continue
		}
		l := e.Len()
		if !haveRaw {
			body := make([]byte, l)
			n, _ := e.Read(body)
			bodies = append(bodies, body[:n]...)
			l = n
		}
		total += l
		_, psk := e.(tls.PreSharedKeyExtension)
		out = append(out, fmt.Sprintf("CFixed %s %d", vh.Bool(psk), l))
	}
	return out, total, bodies, true
}

// words: a byte string as "len [w1; w2; ...]%uint63", 7 bytes per primitive
// integer, big-endian; decoded by pk in Corr/C05Corr.v
func words(b []byte) string {
	var sb strings.Builder
	fmt.Fprintf(&sb, "%d [", len(b))
	for i := 0; i < len(b); i += 7 {
		j := i + 7
		if j > len(b) {
			j = len(b)
		}
		var w uint64
		for _, x := range b[i:j] {
			w = w<<8 | uint64(x)
		}
		if i > 0 {
			sb.WriteByte(';')
		}
		fmt.Fprintf(&sb, "%d", w)
	}
	sb.WriteString("]%uint63")
	return sb.String()
}

func intlist[T uint8 | uint16](xs []T) string {
	it := make([]string, len(xs))
	for i, x := range xs {
		it[i] = fmt.Sprint(x)
	}
	return "[" + strings.Join(it, ";") + "]%uint63"
}

// emitCase records the correspondence case for one built UConn. fromRaw > 0:
// the spec came from FromRaw on a capture of that many bytes.
func emitCase(c *vh.Ctx, kind, key string, uc *tls.UConn, berr error, pads map[*tls.UtlsPaddingExtension]padInfo, fromRaw int, nontrivial bool) {
	emitCaseF(c, kind, key, uc, berr, pads, fromRaw, false, nontrivial)
}

// emitCaseF: addpad says the spec went through ClientHelloSpec.AlwaysAddPadding after FromRaw
// (a padding extension it added is marked pol "added" in pads).
func emitCaseF(c *vh.Ctx, kind, key string, uc *tls.UConn, berr error, pads map[*tls.UtlsPaddingExtension]padInfo, fromRaw int, addpad, nontrivial bool) {
	h := uc.HandshakeState.Hello
	if h == nil {
		c.Count("skipped-nohello")
		return
	}
	haveRaw := berr == nil
	its, total, bodies, ok := items(uc, pads, haveRaw)
	if !ok {
		c.Fail(key, "runner: padding functor could not be classified", key, nil, nil)
		return
	}
	var data []byte
	if haveRaw {
		p, fine := parseHello(h.Raw)
		if !fine {
			c.Fail(key, "Hello.Raw is not a well-framed ClientHello", key, vh.Hex(h.Raw), "well-framed ClientHello")
			return
		}
		if total != len(p.extBlock) {
			c.Fail(key, "extension lengths (Len) do not add up to the emitted extension block", key, total, len(p.extBlock))
			return
		}
		data = h.Raw
	} else {
		// same arrangement as a ClientHello, lengths left zero: only the pieces matter
		data = append(data, 0, 0, 0, 0, 0, 0)
		data = append(data, h.Random...)
		data = append(data, 0)
		data = append(data, h.SessionId...)
		data = append(data, make([]byte, 2+2*len(h.CipherSuites)+1+len(h.CompressionMethods)+2)...)
		data = append(data, bodies...)
	}
	fr := "None"
	if fromRaw > 0 {
		fr = fmt.Sprintf("(Some %d%%uint63)", fromRaw)
	}
	term := fmt.Sprintf("CM %s %s %d %d %s %s [%s] %s %s", fr, vh.Bool(addpad), h.Vers, len(h.SessionId), intlist(h.CipherSuites),
		intlist(h.CompressionMethods), strings.Join(its, "; "), vh.Bool(haveRaw), words(data))
	c.Case(kind, term, key, nontrivial, map[string]any{"kind": kind, "key": key, "len": len(h.Raw), "err": fmt.Sprint(berr)})
}

// ---- the runs ----

func paddingParrots(c *vh.Ctx) []tls.ClientHelloID {
	var out []tls.ClientHelloID
	for _, id := range allIDs {
		spec, err := tls.UTLSIdToSpec(id)
		if err != nil {
			continue
		}
		for _, e := range spec.Extensions {
			if pe, ok := e.(*tls.UtlsPaddingExtension); ok {
				if pol, _ := polOf(pe); pol != "boring" {
					c.Fail("parrot-policy/"+idName(id), "parrot's padding extension does not use BoringPaddingStyle", idName(id), pol, "boring")
				}
				out = append(out, id)
				break
			}
		}
	}
	return out
}

func alpnVariant(r *rand.Rand) []string {
	n := 1 + r.Intn(4)
	out := make([]string, n)
	for i := range out {
		out[i] = strings.Repeat(string(rune('b'+i)), 1+r.Intn(40))
	}
	return out
}

// one parrot connection: correspondence case + property oracle
func parrotCase(c *vh.Ctx, id tls.ClientHelloID, v variant) (unpadded int, ok bool) {
	key := "parrot/" + idName(id) + "/" + v.String()
	spec, err := tls.UTLSIdToSpec(id)
	if err != nil {
		return 0, false
	}
	pads := padInfos(&spec)
	uc, berr := buildConn(&spec, v, c.Seed^int64(len(key))*7919)
	if berr != nil {
		c.Fail(key, "BuildHandshakeState failed for a stock parrot", key, fmt.Sprint(berr), "ClientHello")
		return 0, false
	}
	raw := uc.HandshakeState.Hello.Raw
	p, _ := parseHello(raw)
	u := oracleBoring(c, key, raw)
	emitCase(c, "parrot", key, uc, nil, pads, 0, len(p.padBodies) > 0)
	return u, true
}

func sniLengths(c *vh.Ctx, id tls.ClientHelloID, base int) []int {
	// base: unpadded length at server-name length 1 (so length s gives base+s-1)
	set := map[int]bool{}
	if c.Tier != "quick" {
		for s := 0; s <= 255; s++ {
			set[s] = true
		}
	} else {
		for _, s := range []int{0, 1} {
			set[s] = true
		}
		for _, target := range []int{256, 507, 508, 511, 512} {
			s := target - base + 1
			if s >= 1 && s <= 255 {
				set[s] = true
			}
		}
		set[1+c.Rng.Intn(253)] = true
	}
	var out []int
	for s := range set {
		out = append(out, s)
	}
	sort.Ints(out)
	return out
}

func run(c *vh.Ctx) {
	ids := paddingParrots(c)
	c.Extra["padding_parrots"] = len(ids)
	if len(ids) < 20 {
		c.Fail("parrot-list", "fewer padding-carrying parrots than expected", nil, len(ids), ">= 20")
	}
	// 1. parrots x server-name length (default ALPN and session id)
	for _, id := range ids {
		base, ok := parrotCase(c, id, variant{sni: 1, sid: -1})
		if !ok {
			continue
		}
		for _, s := range sniLengths(c, id, base) {
			if s == 1 {
				continue
			}
			parrotCase(c, id, variant{sni: s, sid: -1})
		}
	}
	// 2. parrots x ALPN / session-id variants at random server-name lengths
	nvar := c.N
	for i := 0; i < nvar; i++ {
		id := ids[c.Rng.Intn(len(ids))]
		v := variant{sni: c.Rng.Intn(256), sid: -1}
		switch c.Rng.Intn(4) {
		case 0:
			v.alpn = alpnVariant(c.Rng)
		case 1:
			v.sid = []int{0, 0, 1, 16, 31, 32}[c.Rng.Intn(6)]
		case 2:
			v.alpn = alpnVariant(c.Rng)
			v.sid = []int{0, 16, 32}[c.Rng.Intn(3)]
		case 3:
			v.alpn = []string{}
		}
		parrotCase(c, id, v)
	}
	// 3. custom specs hitting every unpadded length in 200..600
	runSweep(c)
	// 4. padding state machines the parrots never use
	runCustom(c)
	// 5. fingerprinted padded captures
	runFingerprint(c, ids)
	// 6. ... under every Fingerprinter flag combination, captures padded to other lengths than 512,
	//    with 0/1/many-byte padding bodies, and captures without a padding extension
	runFingerprintFlags(c, ids)
}

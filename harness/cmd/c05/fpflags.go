package main

// Fingerprinted captures under every Fingerprinter flag combination
// (AllowBluntMimicry x AlwaysAddPadding x RealPSKResumption), for captures
// padded to lengths other than 512 (AlwaysPadToLen targets 300..900 and
// hand-set padding), padding bodies of 0 / 1 / many bytes, captures without a
// padding extension, and captures ending in a pre_shared_key extension.
// Property text: a spec fingerprinted from a capture with a non-empty padding
// extension reproduces the captured total length with a server name of the
// captured length — whatever options the Fingerprinter was given.

import (
	"fmt"
	"strings"

	tls "github.com/refraction-networking/utls"
	"verif/harness/vh"
)

type capture struct {
	name       string
	msg        []byte // Hello.Raw of the capturing connection
	sni        int
	hasPSK     bool // carries a pre_shared_key extension
	needsBlunt bool // carries extension types only AllowBluntMimicry accepts
}

// ALPN protocol list whose encoding (1 length byte + name each) takes exactly d bytes, d >= 2
func alpnFill(d int) []string {
	var out []string
	for i := 0; d > 0; i++ {
		l := d - 1
		if l > 255 {
			l = 255
			if d-256 == 1 { // never leave a single byte over
				l = 254
			}
		}
		out = append(out, strings.Repeat(string(rune('c'+i%20)), l))
		d -= 1 + l
	}
	return out
}

func fakePSK() *tls.FakePreSharedKeyExtension {
	label := make([]byte, 40)
	for i := range label {
		label[i] = byte(0x30 + i)
	}
	binder := make([]byte, 32)
	for i := range binder {
		binder[i] = byte(0x80 + i)
	}
	return &tls.FakePreSharedKeyExtension{
		Identities: []tls.PskIdentity{{Label: label, ObfuscatedTicketAge: 0x01020304}},
		Binders:    [][]byte{binder},
	}
}

// spec made only of extension types FromRaw knows: SNI, ALPN (filler), optional padding, optional PSK last
func knownSpec(d int, pad *tls.UtlsPaddingExtension, psk bool) *tls.ClientHelloSpec {
	exts := []tls.TLSExtension{&tls.SNIExtension{}, &tls.ALPNExtension{AlpnProtocols: alpnFill(d)}}
	if pad != nil {
		exts = append(exts, pad)
	}
	if psk {
		exts = append(exts, fakePSK())
	}
	return customSpec(exts...)
}

const fpfSNI = 9

func knownCapture(c *vh.Ctx, name string, u int, pad func() *tls.UtlsPaddingExtension, psk bool) (capture, bool) {
	// measure, then fill to the wanted unpadded length u
	probe, err := buildConn(knownSpec(2, nil, psk), variant{sni: fpfSNI, sid: -1}, c.Seed)
	if err != nil {
		c.Fail("fpf/"+name+"/probe", "custom capture spec does not build", name, fmt.Sprint(err), "ClientHello")
		return capture{}, false
	}
	base := len(probe.HandshakeState.Hello.Raw)
	d := u - base + 2
	if d < 2 {
		return capture{}, false
	}
	var p *tls.UtlsPaddingExtension
	if pad != nil {
		p = pad()
	}
	uc, err := buildConn(knownSpec(d, p, psk), variant{sni: fpfSNI, sid: -1}, c.Seed+int64(u))
	if err != nil {
		c.Fail("fpf/"+name+"/capture", "custom capture spec does not build", name, fmt.Sprint(err), "ClientHello")
		return capture{}, false
	}
	return capture{name: name, msg: uc.HandshakeState.Hello.Raw, sni: fpfSNI, hasPSK: psk}, true
}

func countPads(sp *tls.ClientHelloSpec) (n int, first *tls.UtlsPaddingExtension) {
	for _, e := range sp.Extensions {
		if pe, ok := e.(*tls.UtlsPaddingExtension); ok {
			if n == 0 {
				first = pe
			}
			n++
		}
	}
	return
}

func runFingerprintFlags(c *vh.Ctx, ids []tls.ClientHelloID) {
	var caps []capture
	add := func(cp capture, ok bool) {
		if ok {
			caps = append(caps, cp)
		}
	}
	targets := []int{318, 617, 900, 300 + c.Rng.Intn(601)}
	if c.Tier != "quick" {
		targets = append(targets, 300, 354, 511, 512, 513, 700)
		for i := 0; i < 6; i++ {
			targets = append(targets, 300+c.Rng.Intn(601))
		}
	}
	for _, T := range targets {
		T := T
		always := func() *tls.UtlsPaddingExtension { return &tls.UtlsPaddingExtension{GetPaddingLen: tls.AlwaysPadToLen(T)} }
		many := 5 + c.Rng.Intn(120)
		add(knownCapture(c, fmt.Sprintf("always%d-body%d", T, many), T-4-many, always, false))
		add(knownCapture(c, fmt.Sprintf("always%d-body1", T), T-5, always, false))
		add(knownCapture(c, fmt.Sprintf("manual%d-body0", T), T-4, func() *tls.UtlsPaddingExtension {
			return &tls.UtlsPaddingExtension{PaddingLen: 0, WillPad: true}
		}, false))
		add(knownCapture(c, fmt.Sprintf("manual%d-body33", T), T-37, func() *tls.UtlsPaddingExtension {
			return &tls.UtlsPaddingExtension{PaddingLen: 33, WillPad: true}
		}, false))
	}
	// padded to exactly 512 from OUTSIDE BoringSSL's window: only AlwaysPadToLen(512) reproduces it
	add(knownCapture(c, "always512-u150", 150, func() *tls.UtlsPaddingExtension {
		return &tls.UtlsPaddingExtension{GetPaddingLen: tls.AlwaysPadToLen(512)}
	}, false))
	// no padding extension in the capture
	for _, u := range []int{200, 300, 511, 600} {
		add(knownCapture(c, fmt.Sprintf("nopad-u%d", u), u, nil, false))
	}
	// pre_shared_key last: AlwaysAddPadding must insert before it
	add(knownCapture(c, "psk-nopad-u400", 400, nil, true))
	add(knownCapture(c, "psk-always617", 617-4-40, func() *tls.UtlsPaddingExtension {
		return &tls.UtlsPaddingExtension{GetPaddingLen: tls.AlwaysPadToLen(617)}
	}, true))
	// a capture only blunt mimicry accepts (unknown extension type)
	{
		spec := sweepSpec(1, 150, &tls.UtlsPaddingExtension{GetPaddingLen: tls.AlwaysPadToLen(433)})
		if uc, err := buildConn(spec, variant{sni: fpfSNI, sid: -1}, c.Seed); err == nil {
			caps = append(caps, capture{name: "generic-always433", msg: uc.HandshakeState.Hello.Raw, sni: fpfSNI, needsBlunt: true})
		}
	}
	// parrots whose padding extension pads to another length than 512, and parrots sent unpadded
	pick := ids
	if c.Tier == "quick" {
		pick = nil
		for _, i := range c.Rng.Perm(len(ids))[:4] {
			pick = append(pick, ids[i])
		}
	}
	for _, id := range pick {
		for _, T := range []int{617, 700 + c.Rng.Intn(200)} {
			spec, err := tls.UTLSIdToSpec(id)
			if err != nil {
				continue
			}
			_, pe := countPads(&spec)
			if pe == nil {
				continue
			}
			pe.GetPaddingLen = tls.AlwaysPadToLen(T)
			uc, err := buildConn(&spec, variant{sni: 20, sid: -1}, c.Seed+int64(T))
			if err != nil {
				continue
			}
			caps = append(caps, capture{name: fmt.Sprintf("%s-always%d", idName(id), T), msg: uc.HandshakeState.Hello.Raw, sni: 20})
		}
		spec, _ := tls.UTLSIdToSpec(id)
		if uc, err := buildConn(&spec, variant{sni: 250, sid: -1}, c.Seed); err == nil {
			if p, ok := parseHello(uc.HandshakeState.Hello.Raw); ok && len(p.padBodies) == 0 {
				caps = append(caps, capture{name: idName(id) + "-unpadded", msg: uc.HandshakeState.Hello.Raw, sni: 250})
			}
		}
	}

	for _, cp := range caps {
		for _, blunt := range []bool{false, true} {
			for _, addpad := range []bool{false, true} {
				for _, realpsk := range []bool{false, true} {
					if realpsk && !cp.hasPSK && c.Tier == "quick" {
						continue // without a PSK extension in the capture the flag has nothing to act on
					}
					fpFlagsOne(c, cp, blunt, addpad, realpsk)
				}
			}
		}
	}
}

func fpFlagsOne(c *vh.Ctx, cp capture, blunt, addpad, realpsk bool) {
	key := fmt.Sprintf("fpf/%s/blunt%v-addpad%v-realpsk%v", cp.name, blunt, addpad, realpsk)
	u1, body1, ok := oracleCommon(c, "fpf/"+cp.name+"/capture", cp.msg)
	if !ok {
		return
	}
	rec := record(cp.msg)
	in := map[string]any{"capture": cp.name, "captured_len": len(cp.msg), "captured_padding_body": body1, "sni_len": cp.sni,
		"AllowBluntMimicry": blunt, "AlwaysAddPadding": addpad, "RealPSKResumption": realpsk, "record": vh.Hex(rec)}

	// what FromRaw alone makes of the capture (to tell an added padding extension from a parsed one)
	spec0 := &tls.ClientHelloSpec{}
	if err := spec0.FromRaw(rec, blunt, realpsk); err != nil {
		if blunt {
			c.Fail(key, "FromRaw rejects a well-formed capture even with blunt mimicry", in, fmt.Sprint(err), "spec")
		} else {
			c.Count("fpf-needs-blunt")
		}
		return
	}
	n0, _ := countPads(spec0)

	f := &tls.Fingerprinter{AllowBluntMimicry: blunt, AlwaysAddPadding: addpad, RealPSKResumption: realpsk}
	sp, err := f.FingerprintClientHello(rec)
	if err != nil {
		c.Fail(key, "FingerprintClientHello fails where FromRaw succeeds", in, fmt.Sprint(err), "spec")
		return
	}
	n, first := countPads(sp)
	pads := map[*tls.UtlsPaddingExtension]padInfo{}
	switch {
	case n0 == 0 && !addpad:
		if n != 0 {
			c.Fail(key, "fingerprinted spec has a padding extension the capture did not have", in, n, 0)
			return
		}
	case n0 == 0 && addpad:
		if n != 1 {
			c.Fail(key, "AlwaysAddPadding did not add exactly one padding extension", in, n, 1)
			return
		}
		if pol, _ := polOf(first); pol != "boring" {
			c.Fail(key, "AlwaysAddPadding added a padding extension without BoringPaddingStyle", in, pol, "boring")
		}
		pads[first] = padInfo{pol: "added"}
	default:
		if n != n0 {
			c.Fail(key, "AlwaysAddPadding changed the number of padding extensions of a capture that had one", in, n, n0)
			return
		}
		if pol, pn := polOf(first); pol != "always" || pn != len(cp.msg) {
			c.Fail(key, "fingerprinted spec does not pad to the captured length: the policy FromRaw installed was replaced",
				in, fmt.Sprint(pol, " ", pn), fmt.Sprint("always ", len(cp.msg)))
		}
		for _, e := range sp.Extensions {
			if pe, ok := e.(*tls.UtlsPaddingExtension); ok {
				if pe == first {
					pads[pe] = padInfo{pol: "fromraw", plen: pe.PaddingLen, will: pe.WillPad}
				} else {
					pol, pn := polOf(pe)
					pads[pe] = padInfo{pol: pol, n: pn, plen: pe.PaddingLen, will: pe.WillPad}
				}
			}
		}
	}

	uc2, err := buildConn(sp, variant{sni: cp.sni, sid: -1}, c.Seed+int64(len(key)))
	if err != nil {
		c.Fail(key, "fingerprinted spec does not build", in, fmt.Sprint(err), "ClientHello")
		return
	}
	raw2 := uc2.HandshakeState.Hello.Raw
	switch {
	case n0 >= 1:
		// declared policy: pad to the captured length
		u2 := oracleAlways(c, key, raw2, len(cp.msg))
		if body1 >= 1 && u2 == u1 && len(raw2) != len(cp.msg) {
			c.Fail(key, "fingerprinted padded capture does not reproduce the captured total length", in, len(raw2), len(cp.msg))
		}
		if u2 != u1 {
			c.Count("fpf-unpadded-differs")
		}
	case addpad:
		oracleBoring(c, key, raw2)
	default:
		if _, body, ok := oracleCommon(c, key, raw2); ok && body >= 0 {
			c.Fail(key, "padding extension sent although neither the capture nor the options call for one", in, body, "none")
		}
	}
	emitCaseF(c, "fpflags", key, uc2, nil, pads, len(rec), addpad, true)
}

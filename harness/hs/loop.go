package hs

import (
	"bytes"
	"errors"
	"fmt"
	"io"
	"net"
	"reflect"
	"sync"
	"time"

	tls "github.com/refraction-networking/utls"
)

const appPing = "ping-from-client"

// RecConn records everything written to / read from the underlying connection.
type RecConn struct {
	net.Conn
	mu sync.Mutex
	w  bytes.Buffer
	r  bytes.Buffer
}

func (c *RecConn) Write(b []byte) (int, error) {
	c.mu.Lock()
	c.w.Write(b)
	c.mu.Unlock()
	return c.Conn.Write(b)
}
func (c *RecConn) Read(b []byte) (int, error) {
	n, err := c.Conn.Read(b)
	c.mu.Lock()
	c.r.Write(b[:n])
	c.mu.Unlock()
	return n, err
}
func (c *RecConn) Written() []byte {
	c.mu.Lock()
	defer c.mu.Unlock()
	return append([]byte(nil), c.w.Bytes()...)
}
func (c *RecConn) ReadBytes() []byte {
	c.mu.Lock()
	defer c.mu.Unlock()
	return append([]byte(nil), c.r.Bytes()...)
}

// Opts describes one loopback handshake.
type Opts struct {
	ID        tls.ClientHelloID
	Spec      *tls.ClientHelloSpec // optional: applied with ApplyPreset when ID is HelloCustom
	ClientCfg *tls.Config
	ServerCfg *tls.Config
	Script    *tls.VerifServerScript // nil = honest scripted server
	Prepare   func(*tls.UConn) error // optional, after UClient and before BuildHandshakeState
	// AfterBuild: optional, after BuildHandshakeState (e.g. edit uc.Extensions, inject a session). BuildHandshakeState is then
	// called once more (it re-applies the extensions and re-marshals, as Handshake itself would) before the view is captured.
	AfterBuild func(*tls.UConn) error
	Timeout    time.Duration // per side; default 5 s
	NoAppData  bool
}

// Result of one loopback handshake.
type Result struct {
	BuildErr           error                    // BuildHandshakeState failed (no handshake attempted)
	View               tls.VerifClientView      // client's internal view after BuildHandshakeState
	KeyShareKeys       *tls.KeySharePrivateKeys // private keys retained by ApplyPreset (nil for TLS 1.2-only parrots)
	KeyShape           string                   // ShapeTerm(KeyShareKeys) taken BEFORE the handshake (a HelloRetryRequest replaces the keys)
	HasCompressCertExt bool                     // a UtlsCompressCertExtension is among UConn.Extensions
	Spec               *tls.ClientHelloSpec     // the spec in force (UTLSIdToSpec(ID) or Opts.Spec), nil for HelloGolang/randomized
	ClientErr          error
	ServerErr          error
	ClientState        tls.ConnectionState
	ServerState        tls.ConnectionState
	ClientCurve        uint16 // Conn.curveID on the client
	// FinalState / FinalCurve: the client's ConnectionState and Conn.curveID after Handshake returned, ALSO when it failed
	// (what the connection reports after an abort)
	FinalState   tls.ConnectionState
	FinalCurve   uint16
	ServerCurve  uint16
	ClientDidHRR bool
	// AlertFromClient: alert description the server received from the client (-1 none);
	// AlertFromServer likewise on the client side.
	AlertFromClient int
	AlertFromServer int
	AppData         bool   // the client wrote application data and read the server's echo of it
	ClientStream    []byte // every byte the client wrote
	Hellos          [][]byte
	Wire            *WireHello // parsed first ClientHello
	Wire2           *WireHello // parsed second ClientHello (after HRR) or nil
	Trace           tls.VerifServerTrace
	// first server hello as the client received it (parsed from the bytes read, independent of the server's trace)
	ServerHelloSeen   bool
	ServerHelloVers   uint16 // legacy_version field
	ServerHelloRandom []byte
	ServerHelloSID    []byte
	ServerHelloSuite  uint16
}

func (r *Result) Completed() bool { return r.BuildErr == nil && r.ClientErr == nil }

// remoteAlert extracts the alert description from a "remote error" returned by crypto/tls.
func remoteAlert(err error) int {
	var op *net.OpError
	if errors.As(err, &op) && op.Op == "remote error" && op.Err != nil {
		v := reflect.ValueOf(op.Err)
		if v.Kind() == reflect.Uint8 {
			return int(v.Uint())
		}
	}
	var ae tls.AlertError
	if errors.As(err, &ae) {
		return int(ae)
	}
	return -1
}

// Run performs one handshake over loopback TCP between a uTLS client and the scripted server,
// then (unless NoAppData) one application-data round trip.
func Run(o Opts) *Result {
	res := &Result{AlertFromClient: -1, AlertFromServer: -1}
	if o.Timeout == 0 {
		o.Timeout = 5 * time.Second
	}
	script := o.Script
	if script == nil {
		script = &tls.VerifServerScript{}
	}
	ln, err := net.Listen("tcp", "127.0.0.1:0")
	if err != nil {
		res.BuildErr = err
		return res
	}
	defer ln.Close()

	type srvOut struct {
		err   error
		state tls.ConnectionState
		curve uint16
	}
	done := make(chan srvOut, 1)
	go func() {
		conn, err := ln.Accept()
		if err != nil {
			done <- srvOut{err: err}
			return
		}
		defer conn.Close()
		conn.SetDeadline(time.Now().Add(o.Timeout))
		sc := tls.VerifScriptedServer(conn, o.ServerCfg, script)
		herr := sc.Handshake()
		out := srvOut{err: herr}
		if herr == nil {
			out.state = sc.ConnectionState()
			out.curve = tls.VerifCurveID(sc)
			if !o.NoAppData {
				// TLS 1.0 CBC clients split the first record 1/n-1: read the whole message
				buf := make([]byte, len(appPing))
				n, rerr := io.ReadFull(sc, buf)
				if rerr == nil {
					sc.Write(append([]byte("echo:"), buf[:n]...))
				} else {
					out.err = fmt.Errorf("after handshake: %w", rerr)
				}
			}
			sc.Close()
		}
		done <- out
	}()

	raw, err := net.DialTimeout("tcp", ln.Addr().String(), o.Timeout)
	if err != nil {
		res.BuildErr = err
		return res
	}
	rc := &RecConn{Conn: raw}
	defer rc.Close()
	rc.SetDeadline(time.Now().Add(o.Timeout))
	uc := tls.UClient(rc, o.ClientCfg, o.ID)
	if o.Spec != nil {
		if err := uc.ApplyPreset(o.Spec); err != nil {
			res.BuildErr = err
		}
	}
	if res.BuildErr == nil && o.Prepare != nil {
		res.BuildErr = o.Prepare(uc)
	}
	if res.BuildErr == nil {
		res.BuildErr = uc.BuildHandshakeState()
	}
	if res.BuildErr == nil && o.AfterBuild != nil {
		if res.BuildErr = o.AfterBuild(uc); res.BuildErr == nil {
			res.BuildErr = uc.BuildHandshakeState()
		}
	}
	if res.BuildErr != nil {
		rc.Close()
		<-done
		return res
	}
	res.View = tls.VerifClientViewOf(uc)
	res.KeyShareKeys = uc.HandshakeState.State13.KeyShareKeys
	res.KeyShape = ShapeTerm(res.KeyShareKeys)
	for _, e := range uc.Extensions {
		if _, ok := e.(*tls.UtlsCompressCertExtension); ok {
			res.HasCompressCertExt = true
		}
	}
	if o.Spec != nil {
		res.Spec = o.Spec
	} else if sp, err := tls.UTLSIdToSpec(o.ID); err == nil {
		res.Spec = &sp
	}
	res.ClientErr = uc.Handshake()
	res.FinalState = uc.ConnectionState()
	res.FinalCurve = tls.VerifCurveID(uc.Conn)
	if res.ClientErr == nil {
		res.ClientState = uc.ConnectionState()
		res.ClientCurve = tls.VerifCurveID(uc.Conn)
		res.ClientDidHRR = tls.VerifDidHRR(uc.Conn)
		if !o.NoAppData {
			msg := []byte(appPing)
			if _, werr := uc.Write(msg); werr == nil {
				buf := make([]byte, 64)
				n, rerr := io.ReadAtLeast(uc, buf, 5+len(msg))
				if rerr == nil && bytes.Equal(buf[:n], append([]byte("echo:"), msg...)) {
					res.AppData = true
				} else if rerr != nil {
					res.AlertFromServer = remoteAlert(rerr)
				}
			}
		}
		uc.Close()
	} else {
		res.AlertFromServer = remoteAlert(res.ClientErr)
		rc.Close()
	}
	so := <-done
	res.ServerErr = so.err
	res.ServerState = so.state
	res.ServerCurve = so.curve
	if so.err != nil {
		res.AlertFromClient = remoteAlert(so.err)
	}
	res.Trace = script.Trace
	res.ClientStream = rc.Written()
	res.Hellos = ClientHellosFromStream(res.ClientStream)
	if len(res.Hellos) > 0 {
		res.Wire, _ = ParseClientHello(res.Hellos[0])
	}
	if len(res.Hellos) > 1 {
		res.Wire2, _ = ParseClientHello(res.Hellos[1])
	}
	res.ServerHelloVers, res.ServerHelloRandom, res.ServerHelloSID, res.ServerHelloSuite, res.ServerHelloSeen = ServerHelloFromStream(rc.ReadBytes())
	if res.AlertFromClient < 0 {
		// a plaintext alert the server never got to read (it failed first)
		if al := PlainAlerts(res.ClientStream); len(al) > 0 {
			res.AlertFromClient = int(al[len(al)-1][1])
		}
	}
	return res
}

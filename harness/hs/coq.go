package hs

import (
	"crypto/ecdh"
	"fmt"
	"reflect"

	tls "github.com/refraction-networking/utls"
	"verif/harness/vh"
)

// Coq term emitters for Model/Negotiate.v (client_view, wire_view, flight) and Corr/NegotiateObs.v (observed).

func strsTerm(l []string) string {
	it := make([]string, len(l))
	for i, s := range l {
		it[i] = vh.Str(s)
	}
	return vh.List(it)
}

func u8sTerm(l []uint8) string {
	it := make([]string, len(l))
	for i, s := range l {
		it[i] = fmt.Sprint(s)
	}
	return vh.List(it)
}

// CurveOfKey: the CurveID of an ECDH private key (0 = nil).
func CurveOfKey(k *ecdh.PrivateKey) uint16 {
	if k == nil {
		return 0
	}
	switch k.Curve() {
	case ecdh.X25519():
		return uint16(tls.X25519)
	case ecdh.P256():
		return uint16(tls.CurveP256)
	case ecdh.P384():
		return uint16(tls.CurveP384)
	case ecdh.P521():
		return uint16(tls.CurveP521)
	}
	return 0xffff
}

// ViewTerm: (mkView suites curves shares alpn sid psk ccalgs ccext vmin vmax ech ecdhe mlkem sv session).
// No ECH configured, no PSK session (the harness never offers one through these runs).
func ViewTerm(r *Result) string { return ViewTermSess(r, 0) }

// ViewTermSess: as ViewTerm, with cv_session = cipher suite of the TLS 1.3 PSK session the hello offers (0 = none).
func ViewTermSess(r *Result, sessionSuite uint16) string {
	v := r.View
	var ecdhe uint16
	mlkem := false
	if ks := r.KeyShareKeys; ks != nil {
		ecdhe = CurveOfKey(ks.Ecdhe)
		mlkem = ks.Mlkem != nil
	}
	return fmt.Sprintf("(mkView %s %s %s %s %s %d %s %s %d %d false %d %s %s %d)",
		vh.U16s(v.CipherSuites), vh.U16s(v.SupportedCurves), vh.U16s(v.KeyShareGroups), strsTerm(v.ALPN), vh.Bytes(v.SessionID),
		v.PSKIdentities, vh.U16s(v.CertCompressionAlgs), vh.Bool(r.HasCompressCertExt), v.ConfigMinVersion, v.ConfigMaxVersion,
		ecdhe, vh.Bool(mlkem), vh.U16s(v.SupportedVersions), sessionSuite)
}

// WireTerm: (mkWire legacy suites comps groups shares alpn sid psk ccalgs has_sv sv).
func WireTerm(w *WireHello) string {
	return fmt.Sprintf("(mkWire %d %s %s %s %s %s %s %d %s %s %s)",
		w.LegacyVersion, vh.U16s(w.CipherSuites), u8sTerm(w.CompressionMethods), vh.U16s(w.SupportedGroups), vh.U16s(w.KeyShareGroups),
		strsTerm(w.ALPN), vh.Bytes(w.SessionID), w.PSKIdentities, vh.U16s(w.CertCompressionAlgs), vh.Bool(w.HasSupportedVers), vh.U16s(w.SupportedVersions))
}

// ClientAlert: the alert the client sent (255 = none seen).
func ClientAlert(r *Result) int {
	if r.AlertFromClient >= 0 {
		return r.AlertFromClient
	}
	return 255
}

// ObsTerm: (mkObs completed alert version suite group alpn).
func ObsTerm(r *Result) string {
	return fmt.Sprintf("(mkObs %s %d %d %d %d %s)", vh.Bool(r.ClientErr == nil), ClientAlert(r), r.ClientState.Version,
		r.ClientState.CipherSuite, r.ClientCurve, vh.Str(r.ClientState.NegotiatedProtocol))
}

// NegotiatedALPN: what negotiateALPN (handshake_server.go:312) yields for server preferences prefs
// and the client's list; ok=false when the server refuses (no overlap).
func NegotiatedALPN(prefs, client []string) (string, bool) {
	if len(prefs) == 0 || len(client) == 0 {
		return "", true
	}
	fallback := false
	for _, s := range prefs {
		for _, c := range client {
			if s == c {
				return s, true
			}
			if s == "h2" && c == "http/1.1" {
				fallback = true
			}
		}
	}
	if fallback {
		return "", true
	}
	return "", false
}

func tailOf(random []byte) int {
	if len(random) == 32 {
		switch string(random[24:]) {
		case "DOWNGRD\x01":
			return 1
		case "DOWNGRD\x00":
			return 2
		}
	}
	return 0
}

func countSent(sent []uint8, typ uint8) int {
	n := 0
	for _, t := range sent {
		if t == typ {
			n++
		}
	}
	return n
}

// FlightTerm describes, as a Model/Negotiate.v flight, what the scripted server sent in this run
// (reconstructed from the script and the server's trace). ok=false when the server sent nothing
// (it declined the hello itself), in which case there is no client decision to compare.
func FlightTerm(r *Result, s *tls.VerifServerScript, alpnPrefs []string) (string, bool) {
	tr, w := r.Trace, r.Wire
	if len(tr.Sent) == 0 || w == nil {
		return "", false
	}
	alpn := s.ALPN
	if alpn == "" {
		alpn, _ = NegotiatedALPN(alpnPrefs, w.ALPN)
	}
	sid := w.SessionID
	if s.SessionID != nil {
		sid = s.SessionID
	}
	if tr.Version == tls.VersionTLS13 {
		psk := "None"
		if s.SelectedIdentity != nil {
			psk = fmt.Sprintf("(Some %d)", *s.SelectedIdentity)
		}
		hrr := "None"
		shSent := countSent(tr.Sent, 2) >= 1
		if tr.SentHRR {
			hsid, hcomp, hv, hsv := sid, s.CompressionMethod, hrrVers(tr, s), hrrSV(tr, s)
			cookie := len(s.HRRCookie) > 0
			if s.OverridesAfterHRROnly || tr.HonestHRR {
				hsid, hcomp, hv, hsv = w.SessionID, 0, tls.VersionTLS12, tls.VersionTLS13
			}
			if tr.HonestHRR {
				cookie = false // issued inside processClientHello: not among tr.Sent
			} else {
				shSent = countSent(tr.Sent, 2) >= 2
			}
			hrr = fmt.Sprintf("(Some (mkHello %d %d 0 %s %d %d 0 %d %s None []))", hv, hsv, vh.Bytes(hsid), tr.HRRSuite,
				hcomp, uint16(tr.HRRGroup), vh.Bool(cookie))
		}
		sh := "(mkHello 771 0 0 [] 0 0 0 0 false None [])" // never sent: the client stopped at the HRR
		if shSent {
			suite := tr.Suite
			if s.Suite != 0 {
				suite = s.Suite
			}
			share := uint16(tr.Group)
			if s.Group != 0 {
				share = uint16(s.Group)
			}
			sh = fmt.Sprintf("(mkHello %d %d %d %s %d %d %d 0 false %s [])", tr.HelloVers, tr.HelloSV, tailOf(tr.ServerRandom), vh.Bytes(sid), suite,
				s.CompressionMethod, share, psk)
		}
		cc := "None"
		if s.CertCompression != 0 {
			cc = fmt.Sprintf("(Some %d)", s.CertCompression)
		}
		return fmt.Sprintf("(mkFlight %s %s %s %s None true)", hrr, sh, vh.Str(alpn), cc), true
	}
	suite := tr.Suite
	if s.Suite != 0 {
		suite = s.Suite
	}
	curve := uint16(tr.Group)
	if s.SKXCurve != 0 && tr.Group != 0 {
		curve = uint16(s.SKXCurve)
	}
	skx := "None"
	if curve != 0 {
		skx = fmt.Sprintf("(Some %d)", curve)
	}
	sh := fmt.Sprintf("(mkHello %d %d %d [] %d %d 0 0 false None %s)", tr.HelloVers, tr.HelloSV, tailOf(tr.ServerRandom), suite, s.CompressionMethod, vh.Str(alpn))
	return fmt.Sprintf("(mkFlight None %s [] None %s true)", sh, skx), true
}

func hrrVers(tr tls.VerifServerTrace, s *tls.VerifServerScript) uint16 {
	if s.HelloLegacyVersion != nil {
		return *s.HelloLegacyVersion
	}
	return tls.VersionTLS12
}

func hrrSV(tr tls.VerifServerTrace, s *tls.VerifServerScript) uint16 {
	if s.HelloSupportedVersion != nil {
		return *s.HelloSupportedVersion
	}
	return tls.VersionTLS13
}

// TailOf classifies ServerHello.random[24:32]: 1 = DOWNGRD\x01, 2 = DOWNGRD\x00, 0 = anything else.
func TailOf(random []byte) int { return tailOf(random) }

// Flight12FromSeen: the flight term of a TLS <= 1.2 handshake described by the ServerHello the client
// actually received (works for abbreviated handshakes, which do not pass the scripted server's choke point).
// skxCurve = 0 when no ServerKeyExchange was sent.
func Flight12FromSeen(r *Result, alpn string, skxCurve uint16) string {
	skx := "None"
	if skxCurve != 0 {
		skx = fmt.Sprintf("(Some %d)", skxCurve)
	}
	sh := fmt.Sprintf("(mkHello %d 0 %d %s %d 0 0 0 false None %s)", r.ServerHelloVers, tailOf(r.ServerHelloRandom), vh.Bytes(r.ServerHelloSID),
		r.ServerHelloSuite, vh.Str(alpn))
	return fmt.Sprintf("(mkFlight None %s [] None %s true)", sh, skx)
}

// TreeFixed: the utls tree under test carries the C18 key-share repair (KeySharePrivateKeys.ExtraEcdhe + ecdheKeyFor);
// read by reflection so the harness builds on either tree and hands the model the matching key-selection rule
// (Model/Complete.v client_run10's [fixed]).
func TreeFixed() bool {
	_, ok := reflect.TypeOf(tls.KeySharePrivateKeys{}).FieldByName("ExtraEcdhe")
	return ok
}

// ShapeTerm: curves of the private keys ApplyPreset retained (KeyShare.mkShape ecdhe extra mlkem mlkem_ecdhe).
func ShapeTerm(ks *tls.KeySharePrivateKeys) string {
	if ks == nil {
		return "(KeyShare.mkShape 0 [] false 0)"
	}
	var extra []uint16
	if f := reflect.ValueOf(ks).Elem().FieldByName("ExtraEcdhe"); f.IsValid() {
		keys, _ := f.Interface().([]*ecdh.PrivateKey)
		for _, k := range keys {
			extra = append(extra, CurveOfKey(k))
		}
	}
	return fmt.Sprintf("(KeyShare.mkShape %d %s %s %d)", CurveOfKey(ks.Ecdhe), vh.U16s(extra), vh.Bool(ks.Mlkem != nil), CurveOfKey(ks.MlkemEcdhe))
}

// ObsTermFinal: as ObsTerm, but suite / group / ALPN / version are what the connection reports after Handshake returned,
// also when it failed (compared with Model/NegotiateReport.v).
func ObsTermFinal(r *Result) string {
	return fmt.Sprintf("(mkObs %s %d %d %d %d %s)", vh.Bool(r.ClientErr == nil), ClientAlert(r), r.FinalState.Version,
		r.FinalState.CipherSuite, r.FinalCurve, vh.Str(r.FinalState.NegotiatedProtocol))
}

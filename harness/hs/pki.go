package hs

import (
	"crypto/rand"
	"crypto/rsa"
	"crypto/x509"
	"crypto/x509/pkix"
	"math/big"
	"sync"
	"time"

	tls "github.com/refraction-networking/utls"
	"verif/harness/vh"
)

// PKI: the vh throw-away CA with an ECDSA P-256 leaf and an RSA-2048 leaf for ServerName.
// The RSA leaf is needed for TLS 1.0/1.1 and for parrots whose legacy suites are RSA-only.
type PKI struct {
	*vh.TestPKI
	ECDSA tls.Certificate
	RSA   tls.Certificate
	Roots *x509.CertPool
}

const ServerName = "verif.example"

var (
	pkiOnce sync.Once
	pki     *PKI
)

// SharedPKI builds the PKI once per process (RSA key generation is the slow part).
func SharedPKI() *PKI {
	pkiOnce.Do(func() {
		t := vh.NewTestPKI(ServerName)
		p := &PKI{TestPKI: t}
		p.ECDSA = tls.Certificate{Certificate: [][]byte{t.LeafDER}, PrivateKey: t.LeafKey}
		rk, _ := rsa.GenerateKey(rand.Reader, 2048)
		tmpl := &x509.Certificate{SerialNumber: big.NewInt(time.Now().UnixNano()), Subject: pkix.Name{CommonName: ServerName},
			NotBefore: time.Now().Add(-time.Hour), NotAfter: time.Now().Add(12 * time.Hour), DNSNames: []string{ServerName},
			KeyUsage: x509.KeyUsageDigitalSignature | x509.KeyUsageKeyEncipherment, ExtKeyUsage: []x509.ExtKeyUsage{x509.ExtKeyUsageServerAuth}}
		der, _ := x509.CreateCertificate(rand.Reader, tmpl, t.CACert, &rk.PublicKey, t.CAKey)
		p.RSA = tls.Certificate{Certificate: [][]byte{der}, PrivateKey: rk}
		p.Roots = x509.NewCertPool()
		p.Roots.AddCert(t.CACert)
		pki = p
	})
	return pki
}

// AllSuites12: every TLS <=1.2 suite the library implements (secure and insecure), so a scripted
// server may select any of them.
func AllSuites12() []uint16 {
	var ids []uint16
	for _, s := range tls.CipherSuites() {
		if !onlyTLS13(s.SupportedVersions) {
			ids = append(ids, s.ID)
		}
	}
	for _, s := range tls.InsecureCipherSuites() {
		ids = append(ids, s.ID)
	}
	return ids
}

func onlyTLS13(vs []uint16) bool {
	for _, v := range vs {
		if v != tls.VersionTLS13 {
			return false
		}
	}
	return true
}

// ServerConfig: TLS 1.0-1.3, both leaves, all suites, tickets off, the given ALPN preferences.
func (p *PKI) ServerConfig(alpn ...string) *tls.Config {
	return &tls.Config{
		Certificates:           []tls.Certificate{p.ECDSA, p.RSA},
		MinVersion:             tls.VersionTLS10,
		MaxVersion:             tls.VersionTLS13,
		CipherSuites:           AllSuites12(),
		NextProtos:             alpn,
		SessionTicketsDisabled: true,
	}
}

// ClientConfig: verifies against the throw-away CA under ServerName. OmitEmptyPsk lets the *_PSK parrots
// build a hello without a cached session (the pre_shared_key extension is then left out).
func (p *PKI) ClientConfig() *tls.Config {
	return &tls.Config{ServerName: ServerName, RootCAs: p.Roots, OmitEmptyPsk: true}
}

//go:build verif

package hs

// Usage examples / smoke tests of the scripted server (run with: go test -tags verif ./hs).

import (
	"testing"

	tls "github.com/refraction-networking/utls"
)

func TestHonest(t *testing.T) {
	p := SharedPKI()
	for _, pr := range Parrots() {
		r := Run(Opts{ID: pr.ID, ClientCfg: p.ClientConfig(), ServerCfg: p.ServerConfig("h2", "http/1.1")})
		if r.BuildErr != nil || r.ClientErr != nil || !r.AppData {
			t.Errorf("%s: build=%v client=%v server=%v app=%v", pr.Name, r.BuildErr, r.ClientErr, r.ServerErr, r.AppData)
		}
		if r.Wire == nil || len(r.Wire.CipherSuites) == 0 {
			t.Errorf("%s: wire hello not parsed", pr.Name)
		}
	}
}

func TestHRRWithCookie(t *testing.T) {
	p := SharedPKI()
	s := &tls.VerifServerScript{HRRGroup: tls.CurveP256, HRRCookie: []byte("cookie-123")}
	r := Run(Opts{ID: tls.HelloChrome_120, ClientCfg: p.ClientConfig(), ServerCfg: p.ServerConfig("h2"), Script: s})
	if r.ClientErr != nil || !r.AppData || !r.ClientDidHRR || r.ClientCurve != uint16(tls.CurveP256) {
		t.Fatalf("client=%v server=%v hrr=%v curve=%d", r.ClientErr, r.ServerErr, r.ClientDidHRR, r.ClientCurve)
	}
	if len(r.Hellos) != 2 || r.Wire2 == nil || string(r.Wire2.Cookie) != "cookie-123" {
		t.Fatalf("second hello: %d hellos, wire2=%v", len(r.Hellos), r.Wire2)
	}
	if len(r.Trace.ClientHellos) != 2 || !r.Trace.SentHRR {
		t.Fatalf("trace: %+v", r.Trace.Sent)
	}
}

func TestALPSAndClientEE(t *testing.T) {
	p := SharedPKI()
	s := &tls.VerifServerScript{ALPSCodepoint: 17513, ALPSData: []byte("server-settings"), ReadClientEE: true}
	ccfg := p.ClientConfig()
	ccfg.ApplicationSettings = map[string][]byte{"h2": []byte("client-settings")}
	r := Run(Opts{ID: tls.HelloChrome_120, ClientCfg: ccfg, ServerCfg: p.ServerConfig("h2"), Script: s})
	if r.ClientErr != nil || !r.AppData {
		t.Fatalf("client=%v server=%v", r.ClientErr, r.ServerErr)
	}
	if string(r.ClientState.PeerApplicationSettings) != "server-settings" {
		t.Fatalf("peer application settings %q", r.ClientState.PeerApplicationSettings)
	}
	if len(r.Trace.ClientEE) == 0 {
		t.Fatalf("client EncryptedExtensions not captured")
	}
}

func TestCompressedCertificate(t *testing.T) {
	p := SharedPKI()
	for _, alg := range []uint16{2} { // Chrome advertises brotli
		s := &tls.VerifServerScript{CertCompression: alg}
		r := Run(Opts{ID: tls.HelloChrome_120, ClientCfg: p.ClientConfig(), ServerCfg: p.ServerConfig("h2"), Script: s})
		if r.ClientErr != nil || !r.AppData {
			t.Fatalf("alg %d: client=%v server=%v", alg, r.ClientErr, r.ServerErr)
		}
	}
}

func TestMutateKeepsTranscriptConsistent(t *testing.T) {
	p := SharedPKI()
	seen := map[uint8]int{}
	s := &tls.VerifServerScript{MutateHandshakeMsg: func(typ uint8, b []byte) []byte {
		seen[typ]++
		if typ == 8 { // EncryptedExtensions: append an unknown (ignored?) extension - the client must see the same bytes the transcript has
			return b
		}
		return b
	}}
	r := Run(Opts{ID: tls.HelloFirefox_120, ClientCfg: p.ClientConfig(), ServerCfg: p.ServerConfig("h2"), Script: s})
	if r.ClientErr != nil || !r.AppData {
		t.Fatalf("client=%v server=%v", r.ClientErr, r.ServerErr)
	}
	for _, typ := range []uint8{2, 8, 11, 15, 20} {
		if seen[typ] == 0 {
			t.Errorf("message type %d did not pass through the mutator (seen %v)", typ, seen)
		}
	}
	// a corrupted Finished must be refused
	s2 := &tls.VerifServerScript{MutateHandshakeMsg: func(typ uint8, b []byte) []byte {
		if typ == 20 {
			b[len(b)-1] ^= 1
		}
		return b
	}}
	r2 := Run(Opts{ID: tls.HelloFirefox_120, ClientCfg: p.ClientConfig(), ServerCfg: p.ServerConfig("h2"), Script: s2})
	if r2.ClientErr == nil {
		t.Fatalf("corrupted Finished accepted")
	}
}

func TestLegacyServerAndForcedVersion(t *testing.T) {
	p := SharedPKI()
	cfg := p.ServerConfig("h2")
	cfg.MaxVersion = tls.VersionTLS12
	r := Run(Opts{ID: tls.HelloChrome_120, ClientCfg: p.ClientConfig(), ServerCfg: cfg, Script: &tls.VerifServerScript{LegacyVersionOnly: true}})
	if r.ClientErr != nil || r.ClientState.Version != tls.VersionTLS12 {
		t.Fatalf("legacy 1.2: client=%v server=%v version=%x", r.ClientErr, r.ServerErr, r.ClientState.Version)
	}
	r = Run(Opts{ID: tls.HelloChrome_120, ClientCfg: p.ClientConfig(), ServerCfg: p.ServerConfig("h2"), Script: &tls.VerifServerScript{ForceVersion: tls.VersionTLS12, Canary: "tls12"}})
	if r.ClientErr == nil {
		t.Fatalf("downgrade sentinel accepted")
	}
}

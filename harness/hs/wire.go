package hs

import (
	"encoding/binary"
	"errors"
)

// WireHello: the offered sets of a ClientHello as they appear on the wire.
type WireHello struct {
	LegacyVersion       uint16
	Random              []byte
	SessionID           []byte
	CipherSuites        []uint16
	CompressionMethods  []uint8
	ExtensionTypes      []uint16 // in wire order
	HasSupportedGroups  bool
	SupportedGroups     []uint16
	HasKeyShare         bool
	KeyShareGroups      []uint16
	KeyShareLens        []int
	HasALPN             bool
	ALPN                []string
	HasSupportedVers    bool
	SupportedVersions   []uint16
	HasPSK              bool
	PSKIdentities       int
	PSKBinders          int
	PSKModes            []uint8
	HasCertCompression  bool
	CertCompressionAlgs []uint16
	SignatureAlgorithms []uint16
	SNI                 string
	Cookie              []byte
	HasECH              bool
	ALPSCodepoints      []uint16 // 17513 / 17613 when present
	ALPSProtocols       []string
	HasSessionTicket    bool   // session_ticket extension present
	SessionTicket       []byte // its body (non-empty = a TLS 1.2 session is offered)
	HasEMS              bool   // extended_master_secret extension present
}

type rd struct {
	b   []byte
	err bool
}

func (r *rd) u8() uint8 {
	if len(r.b) < 1 {
		r.err = true
		return 0
	}
	v := r.b[0]
	r.b = r.b[1:]
	return v
}
func (r *rd) u16() uint16 {
	if len(r.b) < 2 {
		r.err = true
		r.b = nil
		return 0
	}
	v := binary.BigEndian.Uint16(r.b)
	r.b = r.b[2:]
	return v
}
func (r *rd) take(n int) []byte {
	if n < 0 || len(r.b) < n {
		r.err = true
		r.b = nil
		return nil
	}
	v := r.b[:n]
	r.b = r.b[n:]
	return v
}
func (r *rd) vec8() *rd  { return &rd{b: r.take(int(r.u8()))} }
func (r *rd) vec16() *rd { return &rd{b: r.take(int(r.u16()))} }

// ParseClientHello parses a ClientHello handshake message (4-byte handshake header included).
// Strict about framing (every length prefix exact, no trailing bytes); extension bodies it
// does not know stay opaque.
func ParseClientHello(msg []byte) (*WireHello, error) {
	if len(msg) < 4 || msg[0] != 1 {
		return nil, errors.New("not a ClientHello")
	}
	n := int(msg[1])<<16 | int(msg[2])<<8 | int(msg[3])
	if n != len(msg)-4 {
		return nil, errors.New("handshake length mismatch")
	}
	r := &rd{b: msg[4:]}
	h := &WireHello{}
	h.LegacyVersion = r.u16()
	h.Random = append([]byte(nil), r.take(32)...)
	h.SessionID = append([]byte(nil), r.vec8().b...)
	cs := r.vec16()
	if len(cs.b)%2 != 0 {
		return nil, errors.New("odd cipher suite vector")
	}
	for len(cs.b) > 0 {
		h.CipherSuites = append(h.CipherSuites, cs.u16())
	}
	h.CompressionMethods = append([]uint8(nil), r.vec8().b...)
	if r.err {
		return nil, errors.New("truncated ClientHello")
	}
	if len(r.b) == 0 {
		return h, nil
	}
	exts := r.vec16()
	if r.err || len(r.b) != 0 {
		return nil, errors.New("bad extensions block")
	}
	for len(exts.b) > 0 {
		t := exts.u16()
		body := exts.vec16()
		if exts.err {
			return nil, errors.New("truncated extension")
		}
		h.ExtensionTypes = append(h.ExtensionTypes, t)
		switch t {
		case 0: // server_name
			l := body.vec16()
			for len(l.b) > 0 {
				typ := l.u8()
				nm := l.vec16()
				if typ == 0 {
					h.SNI = string(nm.b)
				}
			}
		case 10:
			h.HasSupportedGroups = true
			l := body.vec16()
			for len(l.b) > 0 {
				h.SupportedGroups = append(h.SupportedGroups, l.u16())
			}
			body.err = body.err || l.err
		case 13:
			l := body.vec16()
			for len(l.b) > 0 {
				h.SignatureAlgorithms = append(h.SignatureAlgorithms, l.u16())
			}
		case 16:
			h.HasALPN = true
			l := body.vec16()
			for len(l.b) > 0 {
				h.ALPN = append(h.ALPN, string(l.vec8().b))
			}
			body.err = body.err || l.err
		case 27:
			h.HasCertCompression = true
			l := body.vec8()
			for len(l.b) > 0 {
				h.CertCompressionAlgs = append(h.CertCompressionAlgs, l.u16())
			}
			body.err = body.err || l.err
		case 43:
			h.HasSupportedVers = true
			l := body.vec8()
			for len(l.b) > 0 {
				h.SupportedVersions = append(h.SupportedVersions, l.u16())
			}
			body.err = body.err || l.err
		case 44:
			h.Cookie = append([]byte{}, body.vec16().b...)
		case 45:
			h.PSKModes = append([]uint8(nil), body.vec8().b...)
		case 51:
			h.HasKeyShare = true
			l := body.vec16()
			for len(l.b) > 0 {
				g := l.u16()
				d := l.vec16()
				h.KeyShareGroups = append(h.KeyShareGroups, g)
				h.KeyShareLens = append(h.KeyShareLens, len(d.b))
			}
			body.err = body.err || l.err
		case 41:
			h.HasPSK = true
			ids := body.vec16()
			for len(ids.b) > 0 {
				ids.vec16()
				ids.take(4)
				h.PSKIdentities++
			}
			bs := body.vec16()
			for len(bs.b) > 0 {
				bs.vec8()
				h.PSKBinders++
			}
			body.err = body.err || ids.err || bs.err
		case 17513, 17613:
			h.ALPSCodepoints = append(h.ALPSCodepoints, t)
			l := body.vec16()
			for len(l.b) > 0 {
				h.ALPSProtocols = append(h.ALPSProtocols, string(l.vec8().b))
			}
		case 0xfe0d:
			h.HasECH = true
		case 35:
			h.HasSessionTicket = true
			h.SessionTicket = append([]byte{}, body.b...)
			body.b = nil
		case 23:
			h.HasEMS = true
		}
		if body.err {
			return nil, errors.New("malformed extension body")
		}
	}
	return h, nil
}

func ContainsU16(l []uint16, v uint16) bool {
	for _, x := range l {
		if x == v {
			return true
		}
	}
	return false
}

func ContainsStr(l []string, v string) bool {
	for _, x := range l {
		if x == v {
			return true
		}
	}
	return false
}

// Record is one TLS record as seen on the wire.
type Record struct {
	Type    uint8
	Version uint16
	Body    []byte
}

// SplitRecords splits a byte stream into TLS records (a trailing partial record is dropped).
func SplitRecords(b []byte) []Record {
	var out []Record
	for len(b) >= 5 {
		n := int(binary.BigEndian.Uint16(b[3:]))
		if len(b) < 5+n {
			break
		}
		out = append(out, Record{b[0], binary.BigEndian.Uint16(b[1:]), append([]byte(nil), b[5:5+n]...)})
		b = b[5+n:]
	}
	return out
}

// ClientHellosFromStream reassembles the plaintext ClientHello handshake messages found in the
// leading handshake records of a client's byte stream (1, or 2 when a HelloRetryRequest was answered;
// the second hello is still sent in plaintext records).
func ClientHellosFromStream(stream []byte) [][]byte {
	var hsbuf []byte
	var out [][]byte
	for _, r := range SplitRecords(stream) {
		if r.Type == 20 { // ChangeCipherSpec (middlebox compatibility)
			continue
		}
		if r.Type != 22 {
			break
		}
		hsbuf = append(hsbuf, r.Body...)
		for len(hsbuf) >= 4 {
			n := int(hsbuf[1])<<16 | int(hsbuf[2])<<8 | int(hsbuf[3])
			if len(hsbuf) < 4+n {
				break
			}
			if hsbuf[0] != 1 {
				return out
			}
			out = append(out, append([]byte(nil), hsbuf[:4+n]...))
			hsbuf = hsbuf[4+n:]
		}
	}
	return out
}

// PlainAlerts returns the (level, description) pairs of plaintext alert records in a stream.
func PlainAlerts(stream []byte) [][2]uint8 {
	var out [][2]uint8
	for _, r := range SplitRecords(stream) {
		if r.Type == 21 && len(r.Body) == 2 {
			out = append(out, [2]uint8{r.Body[0], r.Body[1]})
		}
	}
	return out
}

// ServerHelloFromStream parses the first plaintext handshake message of a server's byte stream
// (ServerHello or HelloRetryRequest): legacy_version, random, session id, cipher suite. ok=false if the
// stream does not start with one (e.g. the server sent an alert).
func ServerHelloFromStream(stream []byte) (vers uint16, random, sid []byte, suite uint16, ok bool) {
	var hsbuf []byte
	for _, r := range SplitRecords(stream) {
		if r.Type != 22 {
			break
		}
		hsbuf = append(hsbuf, r.Body...)
		if len(hsbuf) >= 4 {
			n := int(hsbuf[1])<<16 | int(hsbuf[2])<<8 | int(hsbuf[3])
			if len(hsbuf) >= 4+n {
				hsbuf = hsbuf[:4+n]
				break
			}
		}
	}
	if len(hsbuf) < 4+2+32+1 || hsbuf[0] != 2 {
		return 0, nil, nil, 0, false
	}
	p := &rd{b: hsbuf[4:]}
	vers = p.u16()
	random = append([]byte(nil), p.take(32)...)
	sid = append([]byte{}, p.vec8().b...)
	suite = p.u16()
	return vers, random, sid, suite, !p.err
}

package vh

import (
	"crypto/ecdsa"
	"crypto/elliptic"
	"crypto/rand"
	"crypto/x509"
	"crypto/x509/pkix"
	"encoding/pem"
	"math/big"
	"os"
	"time"
)

// TestPKI: a throw-away CA and a leaf for the given DNS names (ECDSA P-256).
type TestPKI struct {
	CADER, LeafDER []byte
	CACert         *x509.Certificate
	LeafKey        *ecdsa.PrivateKey
	CAKey          *ecdsa.PrivateKey
	CAPEM          []byte
}

func NewTestPKI(names ...string) *TestPKI {
	caKey, _ := ecdsa.GenerateKey(elliptic.P256(), rand.Reader)
	caT := &x509.Certificate{SerialNumber: big.NewInt(1), Subject: pkix.Name{CommonName: "verif test CA"},
		NotBefore: time.Now().Add(-time.Hour), NotAfter: time.Now().Add(24 * time.Hour), IsCA: true,
		KeyUsage: x509.KeyUsageCertSign | x509.KeyUsageDigitalSignature, BasicConstraintsValid: true}
	caDER, _ := x509.CreateCertificate(rand.Reader, caT, caT, &caKey.PublicKey, caKey)
	ca, _ := x509.ParseCertificate(caDER)
	p := &TestPKI{CADER: caDER, CACert: ca, CAKey: caKey}
	p.CAPEM = pem.EncodeToMemory(&pem.Block{Type: "CERTIFICATE", Bytes: caDER})
	p.LeafKey, p.LeafDER = p.Leaf(names, time.Now().Add(-time.Hour), time.Now().Add(12*time.Hour))
	return p
}

func (p *TestPKI) Leaf(names []string, nb, na time.Time) (*ecdsa.PrivateKey, []byte) {
	k, _ := ecdsa.GenerateKey(elliptic.P256(), rand.Reader)
	t := &x509.Certificate{SerialNumber: big.NewInt(time.Now().UnixNano()), Subject: pkix.Name{CommonName: names[0]},
		NotBefore: nb, NotAfter: na, DNSNames: names, KeyUsage: x509.KeyUsageDigitalSignature,
		ExtKeyUsage: []x509.ExtKeyUsage{x509.ExtKeyUsageServerAuth}}
	der, _ := x509.CreateCertificate(rand.Reader, t, p.CACert, &k.PublicKey, p.CAKey)
	return k, der
}

// InstallAsSystemRoots makes Go's system root pool (loaded lazily, once) consist of this CA only.
// Must be called before the first certificate verification in the process.
func (p *TestPKI) InstallAsSystemRoots(dir string) {
	os.MkdirAll(dir, 0o755)
	f := dir + "/ca.pem"
	os.WriteFile(f, p.CAPEM, 0o644)
	os.Setenv("SSL_CERT_FILE", f)
	os.Setenv("SSL_CERT_DIR", dir+"/none")
}

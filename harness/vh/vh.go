// Package vh: shared helpers for the correspondence runners — deterministic
// PRNG, Coq term emitters, case/stat collection and sharded cases.v output.
package vh

import (
	"crypto/sha256"
	"flag"
	"encoding/hex"
	"encoding/json"
	"fmt"
	"math/rand"
	"os"
	"path/filepath"
	"sort"
	"strings"
	"sync"
)

type Ctx struct {
	Prop     string
	Seed     int64
	N        int
	Tier     string
	Out      string
	Rng      *rand.Rand
	Corr     string // Coq module holding `check`
	cases    []string
	keys     map[string]bool
	nontriv  map[string]bool
	Samples  []any
	Dist     map[string]int
	Failures []Failure
	Extra    map[string]any
	Replay   string // path given with -replay (a replay file written by an earlier run), or ""
	oracle   map[int]map[string]any
	mu       sync.Mutex
}

// Failure: the implementation's own output violates the property oracle.
type Failure struct {
	Key    string `json:"key"`    // stable key of the failing input / call site
	What   string `json:"what"`   // human text
	Input  any    `json:"input"`  // concrete input
	Got    any    `json:"got"`    // observed
	Want   any    `json:"want"`   // expected by the property
}

func New(prop, corr string, seed int64, n int, tier, out string) *Ctx {
	return &Ctx{Prop: prop, Corr: corr, Seed: seed, N: n, Tier: tier, Out: out,
		Rng: rand.New(rand.NewSource(seed)), keys: map[string]bool{}, nontriv: map[string]bool{},
		Dist: map[string]int{}, Extra: map[string]any{}}
}

// Case records one correspondence case. coq is the Coq term of type `case`.
// key identifies the input (for distinct counting); nontrivial per the runner's rule.
func (c *Ctx) Case(kind, coq, key string, nontrivial bool, sample any) {
	c.mu.Lock()
	defer c.mu.Unlock()
	c.cases = append(c.cases, coq)
	c.Dist[kind]++
	h := sha256.Sum256([]byte(kind + "|" + key))
	hk := hex.EncodeToString(h[:8])
	c.keys[hk] = true
	if nontrivial {
		c.nontriv[hk] = true
	}
	if sample != nil && len(c.Samples) < 6 && c.Dist[kind] <= 1 {
		c.Samples = append(c.Samples, sample)
	}
}

// OracleCase records a case whose Coq `check` is the property's own oracle applied to what the
// implementation produced (not a model/implementation comparison). When the check fails the driver reports
// it as a concrete failing input under `key` (matched against KNOWN_FINDINGS.txt), with `input` as the replay.
func (c *Ctx) OracleCase(kind, coq, key, what string, input any, nontrivial bool) {
	c.mu.Lock()
	if c.oracle == nil {
		c.oracle = map[int]map[string]any{}
	}
	c.oracle[len(c.cases)] = map[string]any{"key": key, "what": what, "input": input}
	c.mu.Unlock()
	c.Case(kind, coq, key+"|"+coq, nontrivial, nil)
}

func (c *Ctx) Count(k string) { c.mu.Lock(); c.Dist[k]++; c.mu.Unlock() }

func (c *Ctx) Fail(key, what string, input, got, want any) {
	c.mu.Lock()
	defer c.mu.Unlock()
	c.Failures = append(c.Failures, Failure{key, what, input, got, want})
}

const shard = 400

func (c *Ctx) Finish() {
	os.MkdirAll(c.Out, 0o755)
	old, _ := filepath.Glob(filepath.Join(c.Out, "cases_*.v"))
	for _, f := range old {
		os.Remove(f)
	}
	nsh := 0
	for i := 0; i < len(c.cases); i += shard {
		j := i + shard
		if j > len(c.cases) {
			j = len(c.cases)
		}
		var sb strings.Builder
		fmt.Fprintf(&sb, "From UV Require Import Base.Common %s.\nOpen Scope N_scope.\n", c.Corr)
		fmt.Fprintf(&sb, "Definition cases : list (N * case) := [\n")
		for k := i; k < j; k++ {
			sep := ";"
			if k == j-1 {
				sep = ""
			}
			fmt.Fprintf(&sb, " (%d, %s)%s\n", k, c.cases[k], sep)
		}
		fmt.Fprintf(&sb, "].\nDefinition bad := Eval vm_compute in map fst (filter (fun c => negb (check (snd c))) cases).\nPrint bad.\n")
		os.WriteFile(filepath.Join(c.Out, fmt.Sprintf("cases_%d.v", nsh)), []byte(sb.String()), 0o644)
		nsh++
	}
	// keep the case terms so a failing index can be shown in the replay
	os.WriteFile(filepath.Join(c.Out, "cases.txt"), []byte(strings.Join(c.cases, "\n")+"\n"), 0o644)
	st := map[string]any{
		"property": c.Prop, "seed": c.Seed, "tier": c.Tier,
		"evaluations": len(c.cases), "distinct": len(c.keys), "distinct_nontrivial": len(c.nontriv),
		"shards": nsh, "samples": c.Samples, "distribution": c.Dist, "failures": c.Failures, "extra": c.Extra,
	}
	if c.oracle != nil {
		oi := map[string]any{}
		for k, v := range c.oracle {
			oi[fmt.Sprint(k)] = v
		}
		st["oracle_idx"] = oi
	}
	b, _ := json.MarshalIndent(st, "", " ")
	os.WriteFile(filepath.Join(c.Out, "stats.json"), b, 0o644)
}

// ---- Coq term emitters ----

func N(x uint64) string { return fmt.Sprintf("%d", x) }
func Z(x int64) string {
	if x < 0 {
		return fmt.Sprintf("(%d)%%Z", x)
	}
	return fmt.Sprintf("%d%%Z", x)
}
func Nat(x int) string { return fmt.Sprintf("%d%%nat", x) }
func Bool(b bool) string {
	if b {
		return "true"
	}
	return "false"
}
func Bytes(b []byte) string {
	if len(b) == 0 {
		return "[]"
	}
	var sb strings.Builder
	sb.WriteByte('[')
	for i, x := range b {
		if i > 0 {
			sb.WriteByte(';')
		}
		fmt.Fprintf(&sb, "%d", x)
	}
	sb.WriteByte(']')
	return sb.String()
}
func List(items []string) string {
	if len(items) == 0 {
		return "[]"
	}
	return "[" + strings.Join(items, "; ") + "]"
}
func U16s(xs []uint16) string {
	it := make([]string, len(xs))
	for i, x := range xs {
		it[i] = fmt.Sprintf("%d", x)
	}
	return List(it)
}
func Str(s string) string { return Bytes([]byte(s)) }
func Opt(present bool, v string) string {
	if !present {
		return "None"
	}
	return "(Some " + v + ")"
}
func Hex(b []byte) string { return hex.EncodeToString(b) }

// Recover runs f and reports whether it panicked.
func Recover(f func()) (panicked bool, val any) {
	defer func() {
		if r := recover(); r != nil {
			panicked = true
			val = r
		}
	}()
	f()
	return
}

func SortedKeys(m map[string]int) []string {
	ks := make([]string, 0, len(m))
	for k := range m {
		ks = append(ks, k)
	}
	sort.Strings(ks)
	return ks
}

func NewRand(seed int64) *rand.Rand { return rand.New(rand.NewSource(seed)) }

// Main is the entry point of a per-property runner package:
//   func main() { vh.Main(map[string]vh.Suite{"C17": {"Corr.C17Corr", run}, "C17race": {...}}) }
type Suite struct {
	Corr string
	Run  func(*Ctx)
}

func Main(suites map[string]Suite) {
	if len(os.Args) < 2 {
		fmt.Println("usage: runner <suite> -seed S -n N -tier T -out DIR [-replay FILE]")
		os.Exit(2)
	}
	name := os.Args[1]
	fs := flag.NewFlagSet("runner", flag.ExitOnError)
	seed := fs.Int64("seed", 1, "")
	n := fs.Int("n", 200, "")
	tier := fs.String("tier", "quick", "")
	out := fs.String("out", "", "")
	replay := fs.String("replay", "", "")
	fs.Parse(os.Args[2:])
	s, ok := suites[name]
	if !ok {
		fmt.Println("unknown suite", name)
		os.Exit(2)
	}
	c := New(name, s.Corr, *seed, *n, *tier, *out)
	c.Replay = *replay
	s.Run(c)
	c.Finish()
}

// Package extcoq renders Go TLSExtension VALUES of refraction-networking/utls as
// Coq terms of type `ext` (coq/theories/Model/Ext.v) and generates random values
// of every built-in extension type within wire limits.
//
// Trusted: the renderer reads a few unexported fields by reflection
// (UtlsPreSharedKeyExtension.cachedLength, GREASEEncryptedClientHelloExtension
// .cipherSuite/.configId/.payload) and carries a verbatim copy of the unexported
// hostnameInSNI.
package extcoq

import (
	"errors"
	"fmt"
	"io"
	"math/rand"
	"net"
	"reflect"
	"strings"
	"unsafe"

	tls "github.com/refraction-networking/utls"
	"verif/harness/vh"
)

// HostnameInSNI is a VERBATIM COPY of the unexported hostnameInSNI
// (handshake_client.go:1345-1360 of /repo); SNIExtension.Len/Read call it on
// e.ServerName and the model constructor ESNI takes its result.
func HostnameInSNI(name string) string {
	host := name
	if len(host) > 0 && host[0] == '[' && host[len(host)-1] == ']' {
		host = host[1 : len(host)-1]
	}
	if i := strings.LastIndex(host, "%"); i > 0 {
		host = host[:i]
	}
	if net.ParseIP(host) != nil {
		return ""
	}
	for len(name) > 0 && name[len(name)-1] == '.' {
		name = name[:len(name)-1]
	}
	return name
}

// ---- term helpers ----

func strList(ss []string) string {
	it := make([]string, len(ss))
	for i, s := range ss {
		it[i] = vh.Bytes([]byte(s))
	}
	return vh.List(it)
}

func bytesList(bs [][]byte) string {
	it := make([]string, len(bs))
	for i, b := range bs {
		it[i] = vh.Bytes(b)
	}
	return vh.List(it)
}

func nums[T ~uint16 | ~uint8 | ~uint32 | ~uint64 | ~int](xs []T) string {
	it := make([]string, len(xs))
	for i, x := range xs {
		it[i] = fmt.Sprintf("%d", uint64(x))
	}
	return vh.List(it)
}

func pskIDs(ids []tls.PskIdentity) string {
	it := make([]string, len(ids))
	for i, id := range ids {
		it[i] = fmt.Sprintf("(%s, %d)", vh.Bytes(id.Label), id.ObfuscatedTicketAge)
	}
	return vh.List(it)
}

// unexported []byte field of a struct value obtained by reflection
func fieldBytes(v reflect.Value) (out []byte) {
	defer func() {
		if r := recover(); r != nil {
			// reflect refused: go through the address
			out = *(*[]byte)(unsafe.Pointer(v.UnsafeAddr()))
		}
	}()
	return v.Bytes()
}

// ExtTerm renders a Go extension value as a parenthesised Coq term of type
// `ext`. false for unknown types and for values the model cannot express
// (negative padding length, a transport parameter whose ID()/Value() panics).
//
// For types with lazily initialised state (QUIC transport parameters, GREASE
// ECH) ExtTerm calls Len() first, which is what fixes that state.
func ExtTerm(e tls.TLSExtension) (string, bool) {
	switch x := e.(type) {
	case *tls.SNIExtension:
		return fmt.Sprintf("(ESNI %s)", vh.Bytes([]byte(HostnameInSNI(x.ServerName)))), true
	case *tls.StatusRequestExtension:
		return "EStatusRequest", true
	case *tls.StatusRequestV2Extension:
		return "EStatusRequestV2", true
	case *tls.SupportedCurvesExtension:
		return fmt.Sprintf("(ESupportedCurves %s)", nums(x.Curves)), true
	case *tls.SupportedPointsExtension:
		return fmt.Sprintf("(ESupportedPoints %s)", vh.Bytes(x.SupportedPoints)), true
	case *tls.SignatureAlgorithmsExtension:
		return fmt.Sprintf("(ESignatureAlgorithms %s)", nums(x.SupportedSignatureAlgorithms)), true
	case *tls.SignatureAlgorithmsCertExtension:
		return fmt.Sprintf("(ESignatureAlgorithmsCert %s)", nums(x.SupportedSignatureAlgorithms)), true
	case *tls.ALPNExtension:
		return fmt.Sprintf("(EALPN %s)", strList(x.AlpnProtocols)), true
	case *tls.ApplicationSettingsExtension:
		return fmt.Sprintf("(EApplicationSettings %s)", strList(x.SupportedProtocols)), true
	case *tls.ApplicationSettingsExtensionNew:
		return fmt.Sprintf("(EApplicationSettingsNew %s)", strList(x.SupportedProtocols)), true
	case *tls.SCTExtension:
		return "ESCT", true
	case *tls.GenericExtension:
		return fmt.Sprintf("(EGeneric %d %s)", x.Id, vh.Bytes(x.Data)), true
	case *tls.ExtendedMasterSecretExtension:
		return "EExtendedMasterSecret", true
	case *tls.UtlsGREASEExtension:
		return fmt.Sprintf("(EGREASE %d %s)", x.Value, vh.Bytes(x.Body)), true
	case *tls.UtlsPaddingExtension:
		if x.PaddingLen < 0 {
			return "", false
		}
		policy := "PadOther"
		if x.GetPaddingLen == nil {
			policy = "PadNone"
		} else if reflect.ValueOf(x.GetPaddingLen).Pointer() == reflect.ValueOf(tls.BoringPaddingStyle).Pointer() {
			policy = "PadBoring"
		}
		return fmt.Sprintf("(EPadding %d %s %s)", x.PaddingLen, vh.Bool(x.WillPad), policy), true
	case *tls.UtlsCompressCertExtension:
		return fmt.Sprintf("(ECompressCert %s)", nums(x.Algorithms)), true
	case *tls.KeyShareExtension:
		it := make([]string, len(x.KeyShares))
		for i, ks := range x.KeyShares {
			it[i] = fmt.Sprintf("(%d, %s)", uint16(ks.Group), vh.Bytes(ks.Data))
		}
		return fmt.Sprintf("(EKeyShare %s)", vh.List(it)), true
	case *tls.QUICTransportParametersExtension:
		// Len() marshals (and caches) first; GREASE parameters pick their random id/value there.
		vh.Recover(func() { x.Len() })
		var it []string
		p, _ := vh.Recover(func() {
			for _, tp := range x.TransportParameters {
				it = append(it, fmt.Sprintf("(%d, %s)", tp.ID(), vh.Bytes(tp.Value())))
			}
		})
		if p {
			return "", false
		}
		return fmt.Sprintf("(EQUICTransportParameters %s)", vh.List(it)), true
	case *tls.PSKKeyExchangeModesExtension:
		return fmt.Sprintf("(EPSKKeyExchangeModes %s)", vh.Bytes(x.Modes)), true
	case *tls.SupportedVersionsExtension:
		return fmt.Sprintf("(ESupportedVersions %s)", nums(x.Versions)), true
	case *tls.CookieExtension:
		return fmt.Sprintf("(ECookie %s)", vh.Bytes(x.Cookie)), true
	case *tls.NPNExtension:
		return fmt.Sprintf("(ENPN %s)", strList(x.NextProtos)), true
	case *tls.RenegotiationInfoExtension:
		if int(x.Renegotiation) < 0 {
			return "", false
		}
		return fmt.Sprintf("(ERenegotiationInfo %d %s)", int(x.Renegotiation), vh.Bytes(x.RenegotiatedConnection)), true
	case *tls.FakeChannelIDExtension:
		return fmt.Sprintf("(EFakeChannelID %s)", vh.Bool(x.OldExtensionID)), true
	case *tls.FakeRecordSizeLimitExtension:
		return fmt.Sprintf("(EFakeRecordSizeLimit %d)", x.Limit), true
	case *tls.FakeTokenBindingExtension:
		return fmt.Sprintf("(EFakeTokenBinding %d %d %s)", x.MajorVersion, x.MinorVersion, vh.Bytes(x.KeyParameters)), true
	case *tls.FakeDelegatedCredentialsExtension:
		return fmt.Sprintf("(EFakeDelegatedCredentials %s)", nums(x.SupportedSignatureAlgorithms)), true
	case *tls.SessionTicketExtension:
		return fmt.Sprintf("(ESessionTicket %s)", vh.Bytes(x.Ticket)), true
	case *tls.UtlsPreSharedKeyExtension:
		cached := "None"
		cl := reflect.ValueOf(x).Elem().FieldByName("cachedLength")
		// the field was removed by fix C08-psk-len-after-edit; older trees still have it
		if cl.IsValid() && !cl.IsNil() {
			n := cl.Elem().Int()
			if n < 0 {
				return "", false
			}
			cached = fmt.Sprintf("(Some %d)", n)
		}
		return fmt.Sprintf("(EUtlsPreSharedKey %s %s %s %s %s)", vh.Bool(x.Session != nil), cached,
			vh.Bool(x.OmitEmptyPsk), pskIDs(x.Identities), bytesList(x.Binders)), true
	case *tls.FakePreSharedKeyExtension:
		return fmt.Sprintf("(EFakePreSharedKey %s %s %s)", vh.Bool(x.OmitEmptyPsk), pskIDs(x.Identities), bytesList(x.Binders)), true
	case *tls.GREASEEncryptedClientHelloExtension:
		// Len() runs init(): cipher suite, config id, encapsulated key and payload are fixed from here on.
		if p, _ := vh.Recover(func() { x.Len() }); p {
			return "", false
		}
		v := reflect.ValueOf(x).Elem()
		cs, cfg, pl := v.FieldByName("cipherSuite"), v.FieldByName("configId"), v.FieldByName("payload")
		if !cs.IsValid() || !cfg.IsValid() || !pl.IsValid() {
			return "", false
		}
		kdf, aead := cs.FieldByName("KdfId"), cs.FieldByName("AeadId")
		if !kdf.IsValid() || !aead.IsValid() {
			return "", false
		}
		return fmt.Sprintf("(EGREASEECH %d %d %d %s %s)", kdf.Uint(), aead.Uint(), cfg.Uint(),
			vh.Bytes(x.EncapsulatedKey), vh.Bytes(fieldBytes(pl))), true
	}
	return "", false
}

// ErrCode maps an error returned by Read to the codes of Model/Ext.v.
// (io.EOF is Read's success indication and is not handled here.)
func ErrCode(err error) uint64 {
	switch {
	case err == nil:
		return 99
	case errors.Is(err, io.ErrShortBuffer):
		return 1
	case errors.Is(err, tls.ErrEmptyPsk):
		return 2
	case strings.Contains(err.Error(), "too many certificate compression"):
		return 3
	case strings.Contains(err.Error(), "too many PSK"):
		return 4
	case strings.Contains(err.Error(), "too many supported versions"):
		return 5
	case strings.Contains(err.Error(), "invalid binder size"):
		return 6
	case strings.Contains(err.Error(), "too many supported point formats"):
		return 7
	case strings.Contains(err.Error(), "application settings protocol name too long"):
		return 8
	case strings.Contains(err.Error(), "renegotiated connection too long"):
		return 9
	case strings.Contains(err.Error(), "too many token binding key parameters"):
		return 22
	}
	return 99
}

// FromID does what ClientHelloSpec.ReadTLSExtensions does per extension
// (u_common.go:238-252): ExtensionFromID, assertion to TLSExtensionWriter, and
// for id 41 the real/fake PSK substitution. nil when there is no writer.
func FromID(id uint16, real bool) tls.TLSExtensionWriter {
	ext := tls.ExtensionFromID(id)
	w, ok := ext.(tls.TLSExtensionWriter)
	if ext == nil || !ok {
		return nil
	}
	if id == 41 {
		if real {
			w = &tls.UtlsPreSharedKeyExtension{}
		} else {
			w = &tls.FakePreSharedKeyExtension{}
		}
	}
	return w
}

// ---- generators ----

// Gen makes a FRESH random value of one extension type. size selects the
// boundary: the main list / byte-string field gets length size, clamped to the
// type's wire limit; elements are random.
type Gen struct {
	Name string // the Go type name
	Make func(r *rand.Rand, size int) tls.TLSExtension
}

func rb(r *rand.Rand, n int) []byte {
	b := make([]byte, n)
	r.Read(b)
	return b
}

func clamp(x, lo, hi int) int {
	if x < lo {
		return lo
	}
	if x > hi {
		return hi
	}
	return x
}

// GreaseValue returns one of 0x0a0a, 0x1a1a, ..., 0xfafa.
func GreaseValue(r *rand.Rand) uint16 {
	return (uint16(r.Intn(16))<<4 | 0x0a) * 0x0101
}

func u16s(r *rand.Rand, n int, grease bool) []uint16 {
	out := make([]uint16, n)
	for i := range out {
		if grease && r.Intn(4) == 0 {
			out[i] = GreaseValue(r)
		} else {
			out[i] = uint16(r.Intn(65536))
		}
	}
	return out
}

func sigs(r *rand.Rand, n int) []tls.SignatureScheme {
	out := make([]tls.SignatureScheme, n)
	for i, v := range u16s(r, n, false) {
		out[i] = tls.SignatureScheme(v)
	}
	return out
}

func lower(r *rand.Rand, n int) string {
	b := make([]byte, n)
	for i := range b {
		b[i] = byte('a' + r.Intn(26))
	}
	return string(b)
}

// protocol-name lists: `size` short names for small sizes; for the boundary
// sizes one name of min(size,255) bytes plus up to two short ones.
func protos(r *rand.Rand, size int) []string {
	one := func() string {
		if r.Intn(8) == 0 {
			return ""
		}
		return string(rb(r, 1+r.Intn(8)))
	}
	var out []string
	if size > 40 {
		for k := r.Intn(3); k > 0; k-- {
			out = append(out, one())
		}
		pos := r.Intn(len(out) + 1)
		big := string(rb(r, clamp(size, 1, 255)))
		out = append(out[:pos], append([]string{big}, out[pos:]...)...)
		return out
	}
	for i := 0; i < size; i++ {
		out = append(out, one())
	}
	return out
}

// random lowercase dotted name of exactly n bytes (n >= 1), never an IP literal
func dotted(r *rand.Rand, n int) string {
	b := []byte(lower(r, n))
	for i := 1; i+1 < n; i++ {
		if r.Intn(7) == 0 && b[i-1] != '.' {
			b[i] = '.'
		}
	}
	return string(b)
}

func sniName(r *rand.Rand, size int) string {
	if size > 0 && r.Intn(2) == 0 {
		return dotted(r, clamp(size, 1, 255))
	}
	switch r.Intn(8) {
	case 0:
		return "example.com"
	case 1:
		return "a.b."
	case 2:
		return ""
	case 3:
		return "1.2.3.4"
	case 4:
		return "[::1]"
	case 5:
		return "fe80::1%eth0"
	case 6:
		return dotted(r, clamp(size, 1, 253)) + strings.Repeat(".", 1+r.Intn(2))
	}
	return dotted(r, clamp(size, 1, 255))
}

func pskIdentities(r *rand.Rand, size int) []tls.PskIdentity {
	var ids []tls.PskIdentity
	for k := r.Intn(4); k > 0; k-- {
		l := r.Intn(clamp(size, 0, 300) + 1)
		if len(ids) == 0 && size > 40 {
			l = clamp(size, 0, 300) // the boundary length itself
		}
		ids = append(ids, tls.PskIdentity{Label: rb(r, l), ObfuscatedTicketAge: r.Uint32()})
	}
	return ids
}

func pskBinders(r *rand.Rand, nids int, anyLen bool) [][]byte {
	n := nids
	if r.Intn(4) == 0 {
		n = r.Intn(4)
	}
	var bs [][]byte
	for ; n > 0; n-- {
		l := 32
		if r.Intn(2) == 0 {
			l = 48
		}
		if anyLen || r.Intn(8) == 0 {
			l = r.Intn(65)
		}
		bs = append(bs, rb(r, l))
	}
	return bs
}

const max62 = uint64(1)<<62 - 1

func tpVal(r *rand.Rand) uint64 {
	bs := []uint64{0, 63, 64, 16383, 16384, 1<<30 - 1, 1 << 30, max62}
	if r.Intn(3) == 0 {
		return bs[r.Intn(len(bs))]
	}
	return (r.Uint64() & max62) >> uint(r.Intn(62))
}

func transportParameter(r *rand.Rand, size int) tls.TransportParameter {
	v := tpVal(r)
	switch r.Intn(18) {
	case 0:
		return tls.MaxIdleTimeout(v)
	case 1:
		return tls.MaxUDPPayloadSize(v)
	case 2:
		return tls.InitialMaxData(v)
	case 3:
		return tls.InitialMaxStreamDataBidiLocal(v)
	case 4:
		return tls.InitialMaxStreamDataBidiRemote(v)
	case 5:
		return tls.InitialMaxStreamDataUni(v)
	case 6:
		return tls.InitialMaxStreamsBidi(v)
	case 7:
		return tls.InitialMaxStreamsUni(v)
	case 8:
		return tls.MaxAckDelay(v)
	case 9:
		return tls.ActiveConnectionIDLimit(v)
	case 10:
		return tls.MaxDatagramFrameSize(v)
	case 11:
		return &tls.DisableActiveMigration{}
	case 12:
		return &tls.GREASEQUICBit{}
	case 13:
		return tls.InitialSourceConnectionID(rb(r, r.Intn(21)))
	case 14:
		return tls.PaddingTransportParameter(rb(r, r.Intn(clamp(size, 0, 300)+1)))
	case 15:
		g := &tls.GREASETransportParameter{Length: uint16(r.Intn(20))}
		if r.Intn(2) == 0 {
			g.IdOverride = 27 + 31*(r.Uint64()%1000)
		}
		if r.Intn(2) == 0 {
			g.ValueOverride = rb(r, r.Intn(21))
		}
		return g
	case 16:
		id := tpVal(r)
		if id == 0 {
			id = 1 + uint64(r.Intn(1000))
		}
		return &tls.FakeQUICTransportParameter{Id: id, Val: rb(r, r.Intn(71))}
	}
	vi := &tls.VersionInformation{ChoosenVersion: r.Uint32(), LegacyID: r.Intn(2) == 0}
	for q := r.Intn(4); q > 0; q-- {
		v := r.Uint32()
		if v == tls.VERSION_GREASE { // Value() would re-randomise it on every call
			v = tls.VERSION_1
		}
		vi.AvailableVersions = append(vi.AvailableVersions, v)
	}
	return vi
}

// Generators returns one generator per built-in extension type (31), each
// producing values within the type's wire limits.
func Generators() []Gen {
	return []Gen{
		{"SNIExtension", func(r *rand.Rand, size int) tls.TLSExtension {
			return &tls.SNIExtension{ServerName: sniName(r, size)}
		}},
		{"StatusRequestExtension", func(r *rand.Rand, size int) tls.TLSExtension { return &tls.StatusRequestExtension{} }},
		{"StatusRequestV2Extension", func(r *rand.Rand, size int) tls.TLSExtension { return &tls.StatusRequestV2Extension{} }},
		{"SupportedCurvesExtension", func(r *rand.Rand, size int) tls.TLSExtension {
			e := &tls.SupportedCurvesExtension{}
			for _, v := range u16s(r, size, true) {
				e.Curves = append(e.Curves, tls.CurveID(v))
			}
			return e
		}},
		{"SupportedPointsExtension", func(r *rand.Rand, size int) tls.TLSExtension {
			return &tls.SupportedPointsExtension{SupportedPoints: rb(r, clamp(size, 0, 255))}
		}},
		{"SignatureAlgorithmsExtension", func(r *rand.Rand, size int) tls.TLSExtension {
			return &tls.SignatureAlgorithmsExtension{SupportedSignatureAlgorithms: sigs(r, size)}
		}},
		{"SignatureAlgorithmsCertExtension", func(r *rand.Rand, size int) tls.TLSExtension {
			return &tls.SignatureAlgorithmsCertExtension{SupportedSignatureAlgorithms: sigs(r, size)}
		}},
		{"ALPNExtension", func(r *rand.Rand, size int) tls.TLSExtension {
			return &tls.ALPNExtension{AlpnProtocols: protos(r, size)}
		}},
		{"ApplicationSettingsExtension", func(r *rand.Rand, size int) tls.TLSExtension {
			return &tls.ApplicationSettingsExtension{SupportedProtocols: protos(r, size)}
		}},
		{"ApplicationSettingsExtensionNew", func(r *rand.Rand, size int) tls.TLSExtension {
			return &tls.ApplicationSettingsExtensionNew{SupportedProtocols: protos(r, size)}
		}},
		{"SCTExtension", func(r *rand.Rand, size int) tls.TLSExtension { return &tls.SCTExtension{} }},
		{"GenericExtension", func(r *rand.Rand, size int) tls.TLSExtension {
			return &tls.GenericExtension{Id: uint16(r.Intn(65536)), Data: rb(r, size)}
		}},
		{"ExtendedMasterSecretExtension", func(r *rand.Rand, size int) tls.TLSExtension { return &tls.ExtendedMasterSecretExtension{} }},
		{"UtlsGREASEExtension", func(r *rand.Rand, size int) tls.TLSExtension {
			return &tls.UtlsGREASEExtension{Value: GreaseValue(r), Body: rb(r, size)}
		}},
		{"UtlsPaddingExtension", func(r *rand.Rand, size int) tls.TLSExtension {
			e := &tls.UtlsPaddingExtension{PaddingLen: size, WillPad: r.Intn(2) == 0}
			switch r.Intn(3) {
			case 1:
				e.GetPaddingLen = tls.BoringPaddingStyle
			case 2:
				e.GetPaddingLen = tls.AlwaysPadToLen(512)
			}
			return e
		}},
		{"UtlsCompressCertExtension", func(r *rand.Rand, size int) tls.TLSExtension {
			e := &tls.UtlsCompressCertExtension{}
			for _, v := range u16s(r, clamp(size, 0, 127), false) {
				e.Algorithms = append(e.Algorithms, tls.CertCompressionAlgo(v))
			}
			return e
		}},
		{"KeyShareExtension", func(r *rand.Rand, size int) tls.TLSExtension {
			e := &tls.KeyShareExtension{}
			n := 0
			if size > 0 {
				n = 1 + r.Intn(3)
			}
			for i := 0; i < n; i++ {
				l := 1 + r.Intn(clamp(size, 1, 300))
				if i == 0 && size > 40 {
					l = clamp(size, 1, 300) // the boundary length itself
				}
				if r.Intn(8) == 0 {
					l = 0
				}
				g := uint16(r.Intn(65536))
				if r.Intn(4) == 0 {
					g = GreaseValue(r)
				}
				e.KeyShares = append(e.KeyShares, tls.KeyShare{Group: tls.CurveID(g), Data: rb(r, l)})
			}
			return e
		}},
		{"QUICTransportParametersExtension", func(r *rand.Rand, size int) tls.TLSExtension {
			e := &tls.QUICTransportParametersExtension{}
			for k := r.Intn(size/8 + 2); k > 0; k-- {
				e.TransportParameters = append(e.TransportParameters, transportParameter(r, size))
			}
			return e
		}},
		{"PSKKeyExchangeModesExtension", func(r *rand.Rand, size int) tls.TLSExtension {
			return &tls.PSKKeyExchangeModesExtension{Modes: rb(r, clamp(size, 0, 255))}
		}},
		{"SupportedVersionsExtension", func(r *rand.Rand, size int) tls.TLSExtension {
			return &tls.SupportedVersionsExtension{Versions: u16s(r, clamp(size, 0, 127), true)}
		}},
		{"CookieExtension", func(r *rand.Rand, size int) tls.TLSExtension {
			return &tls.CookieExtension{Cookie: rb(r, size)}
		}},
		{"NPNExtension", func(r *rand.Rand, size int) tls.TLSExtension {
			return &tls.NPNExtension{NextProtos: protos(r, clamp(size, 0, 40))}
		}},
		{"RenegotiationInfoExtension", func(r *rand.Rand, size int) tls.TLSExtension {
			return &tls.RenegotiationInfoExtension{Renegotiation: tls.RenegotiationSupport(r.Intn(3)),
				RenegotiatedConnection: rb(r, clamp(size, 0, 255))}
		}},
		{"FakeChannelIDExtension", func(r *rand.Rand, size int) tls.TLSExtension {
			return &tls.FakeChannelIDExtension{OldExtensionID: r.Intn(2) == 0}
		}},
		{"FakeRecordSizeLimitExtension", func(r *rand.Rand, size int) tls.TLSExtension {
			return &tls.FakeRecordSizeLimitExtension{Limit: uint16(r.Intn(65536))}
		}},
		{"FakeTokenBindingExtension", func(r *rand.Rand, size int) tls.TLSExtension {
			return &tls.FakeTokenBindingExtension{MajorVersion: uint8(r.Intn(256)), MinorVersion: uint8(r.Intn(256)),
				KeyParameters: rb(r, clamp(size, 0, 255))}
		}},
		{"FakeDelegatedCredentialsExtension", func(r *rand.Rand, size int) tls.TLSExtension {
			return &tls.FakeDelegatedCredentialsExtension{SupportedSignatureAlgorithms: sigs(r, size)}
		}},
		{"SessionTicketExtension", func(r *rand.Rand, size int) tls.TLSExtension {
			return &tls.SessionTicketExtension{Ticket: rb(r, size)}
		}},
		{"UtlsPreSharedKeyExtension", func(r *rand.Rand, size int) tls.TLSExtension {
			e := &tls.UtlsPreSharedKeyExtension{OmitEmptyPsk: r.Intn(2) == 0}
			if r.Intn(2) == 0 {
				e.Session = &tls.SessionState{}
			}
			e.Identities = pskIdentities(r, size)
			e.Binders = pskBinders(r, len(e.Identities), true)
			return e
		}},
		{"FakePreSharedKeyExtension", func(r *rand.Rand, size int) tls.TLSExtension {
			e := &tls.FakePreSharedKeyExtension{OmitEmptyPsk: r.Intn(2) == 0}
			e.Identities = pskIdentities(r, size)
			e.Binders = pskBinders(r, len(e.Identities), false)
			return e
		}},
		{"GREASEEncryptedClientHelloExtension", func(r *rand.Rand, size int) tls.TLSExtension {
			e := &tls.GREASEEncryptedClientHelloExtension{}
			for k := r.Intn(3); k > 0; k-- {
				e.CandidateCipherSuites = append(e.CandidateCipherSuites,
					tls.HPKESymmetricCipherSuite{KdfId: uint16(1 + r.Intn(3)), AeadId: uint16(1 + r.Intn(3))})
			}
			e.CandidateConfigIds = rb(r, r.Intn(3))
			if r.Intn(3) != 0 {
				e.EncapsulatedKey = rb(r, size%64+1)
			}
			lens := []uint16{0, 1, 15, 16, 17, 128, uint16(clamp(size, 0, 300))}
			for k := r.Intn(3); k > 0; k-- {
				e.CandidatePayloadLens = append(e.CandidatePayloadLens, lens[r.Intn(len(lens))])
			}
			return e
		}},
	}
}

// OverLimitGenerators returns generators of values BEYOND the wire limit of
// the types that have a one-byte length prefix: Read either refuses them
// ("too many ...") or narrows the prefix. No property oracle applies to them;
// they tie the model's error branches and byte(..) narrowings to the code.
// The main field gets limit + 1 + size entries.
func OverLimitGenerators() []Gen {
	return []Gen{
		{"UtlsCompressCertExtension#over", func(r *rand.Rand, size int) tls.TLSExtension {
			e := &tls.UtlsCompressCertExtension{}
			for _, v := range u16s(r, 128+size, false) {
				e.Algorithms = append(e.Algorithms, tls.CertCompressionAlgo(v))
			}
			return e
		}},
		{"PSKKeyExchangeModesExtension#over", func(r *rand.Rand, size int) tls.TLSExtension {
			return &tls.PSKKeyExchangeModesExtension{Modes: rb(r, 256+size)}
		}},
		{"SupportedVersionsExtension#over", func(r *rand.Rand, size int) tls.TLSExtension {
			return &tls.SupportedVersionsExtension{Versions: u16s(r, 128+size, true)}
		}},
		{"SupportedPointsExtension#over", func(r *rand.Rand, size int) tls.TLSExtension {
			return &tls.SupportedPointsExtension{SupportedPoints: rb(r, 256+size)}
		}},
		{"RenegotiationInfoExtension#over", func(r *rand.Rand, size int) tls.TLSExtension {
			return &tls.RenegotiationInfoExtension{RenegotiatedConnection: rb(r, 256+size)}
		}},
		{"FakeTokenBindingExtension#over", func(r *rand.Rand, size int) tls.TLSExtension {
			return &tls.FakeTokenBindingExtension{KeyParameters: rb(r, 256+size)}
		}},
		// one protocol name of 256+size bytes between two short ones
		{"ApplicationSettingsExtension#over", func(r *rand.Rand, size int) tls.TLSExtension {
			return &tls.ApplicationSettingsExtension{SupportedProtocols: []string{"h2", lower(r, 256+size), "http/1.1"}}
		}},
		{"ApplicationSettingsExtensionNew#over", func(r *rand.Rand, size int) tls.TLSExtension {
			return &tls.ApplicationSettingsExtensionNew{SupportedProtocols: []string{lower(r, 256+size)}}
		}},
		// ALPNExtension.Read still narrows byte(len(name)) (clientHandshake refuses such NextProtos
		// before the hello is sent): correspondence of the narrowing only.
		{"ALPNExtension#over", func(r *rand.Rand, size int) tls.TLSExtension {
			return &tls.ALPNExtension{AlpnProtocols: []string{"h2", lower(r, 256+size)}}
		}},
	}
}

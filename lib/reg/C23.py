ENTRY = dict(
    runner="C23", pkg="./cmd/c23", corr=["Corr.C23Corr"], n=dict(quick=160, thorough=6000), runner_timeout=3000,
    rule="UQUICConn (4 TLS 1.3-only custom QUIC specs with quic_transport_parameters, HelloGolang, 3 predefined non-QUIC ids) "
         "paired with the package's QUICServer; four driver disciplines (drain to QUICNoEvent after every call; eager: act on each event at once "
         "and feed replies back before popping the next; feed-first; random choice among pop / feed client / feed server), CRYPTO data in "
         "random chunks; one of 20 "
         "injections per run (none, HRR via server CurvePreferences, no ServerName, MinVersion below 1.3, unbuildable hello, "
         "server ALPN alert, certificate verification failure, context cancelled before Start / mid-handshake, Close mid-handshake, "
         "data at the wrong level, ids without quic_transport_parameters, HelloGolang with parameters before/after the "
         "TransportParametersRequired event, Close/cancel while that event is pending, session ticket after completion); every "
         "client call under a 2 s watchdog (a call still blocked after a further 4 s grace period is a hang). Distinct by (scenario, call trace); non-trivial when the handshake completed or the "
         "trace has more than 6 calls.",
    trusted_base=["Go runtime scheduler and channel semantics (modelled as rendez-vous steps)", "the package's own QUICServer as the peer",
                  "hooks/verif_c23.go VerifPendingEvents (number of undelivered events; lets the runner attribute every event to the call that created it)"],
    assumes=["every piece of handshake code between two quicWaitForSignal calls terminates (scripts are finite)",
             "an error return from quicWaitForSignal is propagated without creating further events",
             "HandleData / SetTransportParameters-after-Start are only called after a Start that passed the MinVersion check"],
    level_text="Proof on the transition system (all interleavings, unbounded waits) of: no API call blocks forever, every call returns "
               "within a bounded number of steps, event order per RFC 9001, events created only while the caller is blocked, empty "
               "session id / no CCS. Partial: the Go scheduler, real timeouts and memory are outside the model; trace inclusion of the "
               "real code in the model is checked on every run, not proved.",
)

ENTRY = dict(
    gen=["suites"],
    runner="C25", pkg="./cmd/c25", corr=["Corr.C25Corr"], n=dict(quick=150, thorough=1500), runner_timeout=2400, race_suite="C25race",
    rule="every (version, suite) that the crypto/tls server of the toolchain negotiates with uTLS, taken from the real suite "
         "table (TLS 1.0/1.1: 11 suites each, TLS 1.2: 22, TLS 1.3: 3): a uTLS client (spec offering exactly that pair) "
         "handshakes over loopback TCP; 1 session per pair (thorough 6) of client writes (sizes from {0,1,2,15,16,17,1186..1188,"
         "16383..16385,32768} or random up to 2^15) read back by the server with random buffer sizes, server writes read by "
         "UConn.Read with random buffer sizes, TLS 1.3 KeyUpdates in between; Go-side oracle: bytes equal, no error; one case per "
         "session: type, version, length, explicit nonce of every record the client wrote vs the model. TLS 1.3 additionally against "
         "the uTLS server (it has the hooks): histories of 8 (thorough 24) key updates alternating peer/client, random "
         "update_requested, data both ways after each; and against crypto/tls (a peer with its OWN key schedule): 5 (thorough 12) "
         "client KeyUpdates, mostly update_requested so that the server ratchets its sending secret itself, data both ways under "
         "every generation; post-handshake messages while the LOCAL send side is broken (4 ways: expired write deadline, transport "
         "write error, transport write blocking then timing out, half-closed socket): the uTLS-server peer sends "
         "KeyUpdate(update_requested), data, an extra NewSessionTicket, data, KeyUpdate(requested), data, KeyUpdate, data - the "
         "client must read exactly those bytes or end with the transport error, never a locally raised TLS alert; transport segmentation x application read sizes: data record(s) followed directly by close_notify, served "
         "coalesced / split at random points / byte by byte / at record boundaries, read with buffers of 1, 2-10, < record, > record, "
         "mixed, through Conn.Read and UConn.Read (forged streams per (kind, MAC size, version) at TLS 1.0-1.2; live TLS 1.2 GCM/CBC "
         "and TLS 1.3 with the uTLS server, both directions): exactly the bytes sent, then io.EOF; zero-length application data records interleaved with data in three shapes (random runs up to 24, > 40 "
         "in total; one empty record before EACH of ~55 data records; pairs), read by UConn.Read. Tampering on live sessions: bit flip in body / first header / dropped byte (3 per pair, thorough 12), TLS "
         "1.3 record truncated to 0,1,15..18,40 bytes (thorough 0..63). Record level on forged connections (fresh receiver per "
         "experiment, UConn.Read, panic = failure) for EVERY suite of the table incl. the weak CBC suites x versions 1.0-1.2: the first "
         "record truncated to every shorter length (header adjusted), the stream cut at every offset, one bit flipped at every byte; "
         "empty-record patterns with the model predicting bytes delivered / error. Distinct by (suite, version, session/pattern); "
         "non-trivial when more than 3 records. Race suite C25race (run under the race detector): 3 (thorough 9) TLS 1.3 "
         "connections with the uTLS server; on each side two writer goroutines write numbered 64-byte chunks continuously, a "
         "reader goroutine verifies the peer's chunks (and answers its KeyUpdate requests inside Read), and a third goroutine sends "
         "n = 150 (thorough 1500) KeyUpdate(update_requested) with random pauses; oracle: every chunk arrives intact and in its "
         "writer's order, no call fails, no data race reported.",
    trusted_base=["hooks/verif_c27.go (suite table, record state), hooks/verif_c25.go (VerifSendKeyUpdate), hooks/verif_c28.go (VerifWriteEmptyRecord), hooks/verif_c25b.go (VerifWriteRecord): test equipment",
                  "the uTLS server (same record layer) as the peer for key-update and empty-record histories",
                  "crypto/tls server of the Go toolchain as the compliant peer",
                  "AEAD / CBC / RC4 / HMAC laws as premises (prims_ok); ideal-AEAD premise for the tamper theorem (labelled)"],
    assumes=["primitives obey prims_ok (satisfiable: toy instance); tamper statement: Open accepts only sealed ciphertexts (ideal)",
             "no 64-bit sequence number wrap; random source yields >= 16 bytes per record",
             "the handshake leaves writer and reader matched per direction (established by C11/C27; observed here)"],
    level_text="Proof (primitives as premises) of record round trip for all cipher constructions and versions, of fragment bounds, "
               "and of stream integrity for any interleaving of writes and reads of any sizes per direction; key-update ratchet "
               "keeps the halves matched; AEAD tamper detection under an ideal-AEAD premise. Partial: KeyUpdate message plumbing "
               "through Read, MAC-then-encrypt tamper detection, and the suites only OpenSSL/no server implements (0x003d, "
               "0xc024, 0xc028, 0xcc13, 0xcc14: covered at record level by C27) are observed by the runners, not proved.",
)

ENTRY = dict(
    gen=["suites"],
    runner="C25", pkg="./cmd/c25", corr=["Corr.C25Corr"], n=dict(quick=1, thorough=1), runner_timeout=2400,
    rule="every (version, suite) that the crypto/tls server of the toolchain negotiates with uTLS, taken from the real suite "
         "table (TLS 1.0/1.1: 11 suites each, TLS 1.2: 22, TLS 1.3: 3): a uTLS client (spec offering exactly that pair) "
         "handshakes over loopback TCP; 1 session per pair (thorough 6), each two (thorough three) rounds of 2-4 (3-5) client writes (sizes from "
         "{0,1,2,15,16,17,1186..1188,16383..16385,32768} or random up to 2^15) read back by the server with random buffer "
         "sizes, 2-4 server writes read by UConn.Read with random buffer sizes, and in TLS 1.3 a KeyUpdate (random "
         "update_requested) between rounds; Go-side oracle: bytes equal, no error. One case per session: type, version, length "
         "and explicit nonce of every record the client wrote vs the model. Tampering: 3 (thorough 12) fresh sessions per pair "
         "with one bit flipped (body or header) or one byte dropped in what the client receives: must end in an error with only "
         "a prefix of the sent bytes delivered. Distinct by (suite, version, session); non-trivial when more than 3 records.",
    trusted_base=["hooks/verif_c27.go (suite table, record state), hooks/verif_c25.go (VerifSendKeyUpdate: test equipment)",
                  "crypto/tls server of the Go toolchain as the compliant peer",
                  "AEAD / CBC / RC4 / HMAC laws as premises (prims_ok); ideal-AEAD premise for the tamper theorem (labelled)"],
    assumes=["primitives obey prims_ok (satisfiable: toy instance); tamper statement: Open accepts only sealed ciphertexts (ideal)",
             "no 64-bit sequence number wrap; random source yields >= 16 bytes per record",
             "the handshake leaves writer and reader matched per direction (established by C11/C27; observed here)"],
    level_text="Proof (primitives as premises) of record round trip for all cipher constructions and versions, of fragment bounds, "
               "and of stream integrity for any interleaving of writes and reads of any sizes per direction; key-update ratchet "
               "keeps the halves matched; AEAD tamper detection under an ideal-AEAD premise. Partial: KeyUpdate message plumbing "
               "through Read, MAC-then-encrypt tamper detection, and the suites only OpenSSL/no server implements (0x003d, "
               "0xc024, 0xc028, 0xcc13, 0xcc14: covered at record level by C27) are observed by the runners, not proved.",
)

ENTRY = dict(
    runner="C05", pkg="./cmd/c05", corr=["Corr.C05Corr"], n=dict(quick=120, thorough=3000),
    rule="placeholder",
    trusted_base=[], assumes=[],
)

ENTRY = dict(
    runner="C05", pkg="./cmd/c05", corr=["Corr.C05Corr"], n=dict(quick=40, thorough=3000),
    rule="real UConns (UClient over a dummy net.Conn, BuildHandshakeState only) for every parrot whose spec carries a "
         "padding extension (found from the specs at run time, 26 at this commit) x server-name lengths 0..255 (quick: 0, 1, "
         "the lengths putting the unpadded size at 256/507/508/511/512, one random; thorough: all) with the stock ALPN and "
         "session id, plus n random (parrot, server-name length, ALPN list, session-id length) variants; custom specs of "
         "GenericExtension bodies hitting every unpadded length 200..600 with the padding extension first/middle/last (quick: "
         "254..258, 505..514 and every 10th); AlwaysPadToLen(n) directly around n, nil functor with hand-set state, zero-length "
         "neighbours that make the bufio buffer exactly full, no extensions, two/three padding extensions (error); specs "
         "fingerprinted (Fingerprinter.FingerprintClientHello, i.e. FromRaw) from the parrots' own padded output and re-applied "
         "with the captured, a longer and a shorter server name; and fingerprinting under every Fingerprinter flag combination "
         "(AllowBluntMimicry x AlwaysAddPadding x RealPSKResumption) of captures padded to other lengths than 512 (AlwaysPadToLen "
         "targets 300..900, hand-set padding, bodies of 0/1/many bytes, 512 reached from outside the 256..511 window), captures "
         "without a padding extension, captures ending in pre_shared_key, a capture needing blunt mimicry, and parrots re-padded "
         "to 617/700..899 or sent unpadded: regenerated length compared with the captured one, installed functor classified, "
         "the model applying always_add_padding after from_raw_install (added extension must sit at the observed position). Every case: Hello.Raw recomputed by the model byte for byte. "
         "Distinct by (spec, variant); non-trivial when a padding extension is emitted / the policy is active / an error is returned.",
    trusted_base=["independent ClientHello framing parser and padding oracle in harness/cmd/c05/oracle.go",
                  "behavioural classification of the GetPaddingLen functor (compared with reference functors on 0..1300)",
                  "Go 1.24 bufio.Writer / bytes.Buffer semantics as transcribed in Model/Marshal.v (tied by the byte-for-byte runs, "
                  "including the exactly-full-buffer paths)"],
    assumes=["every TLSExtension.Read returns (n, io.EOF) on success and does not write beyond the n bytes it reports (premise of "
             "the zero-body theorem; observed on all parrots)",
             "PaddingLen is non-negative; len(hello.Random) = 32 (ApplyPreset enforces it)",
             "extensions other than padding emit bytes that do not depend on the buffer contents (premise aext_ok)"],
    level_text="Proof over all header sizes, extension lists and lengths of the generic marshal model (length, framing, padding "
               "decision at every unpadded length incl. 508..511, zero body out of the zeroed buffer, duplicate => error, FromRaw "
               "length reproduction); the model is tied to MarshalClientHelloNoECH + bufio by byte-for-byte correspondence.",
)

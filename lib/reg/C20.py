ENTRY = dict(
    runner="C20", pkg="./cmd/c20", corr=["Corr.C20Corr"], n=dict(quick=700, thorough=4200),
    rule="histories of the public session API (SetSessionCache, BuildHandshakeStateWithoutSession, SetSessionTicketExtension, "
         "SetPskExtension, SetSessionState, BuildHandshakeState, Handshake) plus documented edits of the built hello (SetClientRandom, "
         "SetSNI same/longer name, session id): a fixed corpus of the documented flows (incl. inject-build-edit-handshake, "
         "inspect-reuse-handshake and the BuildHandshakeStateWithoutSession witness) on 7 ClientHelloIDs, every history up to length 3 over "
         "the 8 call kinds (quick: half of length 3; thorough: up to length 4), sampled histories up to length 5, and random documented "
         "flows ([SetSessionCache] (inspect|edit)* [inject] (inspect|build|edit)* Handshake, up to 9 calls), each on a ClientHelloID "
         "with/without session_ticket and pre_shared_key extensions (Chrome_100, Chrome_112_PSK_Shuf, Chrome_115_PQ_PSK, Chrome_133, "
         "Firefox_120, iOS_14, Safari_16_0, Golang) with drawn configuration (cache in Config or set later, tickets disabled, OmitEmptyPsk, "
         "cache empty / holding a TLS 1.2 / TLS 1.3 session, TLS 1.2-only or TLS 1.3 loopback server). Setter arguments: nil, a session from "
         "a priming connection, a session forged from a known master secret (MakeClientSessionState + Config.EncryptTicket), an "
         "uninitialized extension, or the extension object found in uconn.Extensions filled in place. Distinct by (ClientHelloID, history, "
         "configuration); non-trivial when the history has at least 3 calls including a build or handshake.",
    trusted_base=["loopback Go TLS servers of the utls package (session tickets with a fixed ticket key)",
                  "the runner's ClientHello parser (session_ticket bodies, first pre_shared_key identity, key_share entries)",
                  "classification of error/panic messages by substring into the model's codes"],
    assumes=["ClientHelloSpec shape of the predefined parrots: at most one session_ticket extension, pre_shared_key last and only together "
             "with session_ticket, skipResumptionOnNilExtension true, OmitEmptyPsk set when a pre_shared_key extension is present (premise world_ok)",
             "extension objects modelled as (made by caller, Initialized) in the control part and (wire bytes, session identity) in the data part, with "
             "explicit pointer identity between the controller's extension and the entry of uconn.Extensions; key-share keys modelled by three bits; "
             "the data comparison in setPskToUConn modelled by the flag psk_same",
             "after Handshake only Handshake and the setters are documented calls (HandshakeState is replaced by the handshake)",
             "HelloGolang is outside the wire/forbidden theorems (known finding golang-session-setter-ignored)"],
    level_text="Proof, for histories of any length and any ticket/identity bytes, on the model of UConn + sessionController (code with the "
               "apply-preset-once fix): every documented call order runs without an assertion panic (HelloGolang included), keeps the "
               "key-share private keys that belong to the shares in the hello (incl. BuildHandshakeStateWithoutSession then "
               "BuildHandshakeState), puts an injected initialized ticket / PSK identity into the marshaled hello and HandshakeState "
               "unchanged, recomputes the PSK binders in every successful build (so no Handshake fails for a stale binder or a lost key), "
               "and every forbidden setter call returns 'session is disabled' or panics with a documented message. The model "
               "state is finite control x provenance flags x data by construction; the invariant is the computed reachable control set of "
               "each of the 864 parrot-shaped abstract worlds, checked closed by one vm_compute and lifted by induction over the history. "
               "Partial: cryptography, binder patching, the rest of the ClientHello and the network are not modelled; resumption "
               "(DidResume on both sides) and the wire bytes are observed by the runner on real loopback handshakes.",
    runner_timeout=1200,
)

ENTRY = dict(
    runner="C10", pkg="./cmd/c10", corr=["Corr.C10Corr"], n=dict(quick=900, thorough=9000), runner_timeout=2400,
    rule="spec classes: the 38 predefined parrots, reproducible randomized fingerprints (10 quick / 200 thorough), fingerprinted copies "
         "(Fingerprinter on the class's own ClientHello, re-applied as HelloCustom; every 5th class quick, all parrots + every 4th randomized "
         "thorough), three custom specs (five shares, hybrid-only, P-384 only). Per class one honest probe handshake, then one loopback-TCP "
         "handshake + application-data echo per server configuration derived from the class's own wire hello: MaxVersion 1.2 / 1.3; each "
         "offered group of {X25519,P-256,P-384,P-521,X25519MLKEM768} alone in CurvePreferences (share present: direct; absent: "
         "HelloRetryRequest); each offered TLS 1.3 suite; each offered implemented TLS 1.2 suite alone; ALPN h2 / http/1.1 / none; ECDSA / "
         "RSA / Ed25519 leaf alone at 1.3 and 1.2; each advertised certificate-compression algorithm; *_PSK parrots: resumption attempt "
         "answered by a HelloRetryRequest. Quick: all group choices of parrots and custom specs and the excluded classes, the other "
         "configurations rotate with the seed (1 in 4); thorough: full product. A configuration the server itself rejects (no common suite / "
         "signature algorithm) is counted, not a case. Distinct by (kind, class, choice); non-trivial unless the plain 1.3 / first-share run.",
    trusted_base=["verif_server.go scripted server (library's own server sub-steps; honest except for the HelloRetryRequest group / TLS 1.3 suite / "
                  "certificate compression it is told to select from the offered sets) and verif_c12.go view accessors",
                  "harness/hs ClientHello wire parser", "Go crypto/x509 against a throw-away CA (ECDSA, RSA, Ed25519 leaves)",
                  "cryptography, certificate validation, Finished and record protection abstracted into the flight's f_crypto_ok bit; signature-algorithm "
                  "choice is exercised by the runs only"],
    assumes=["keys_ok (every generated share backed by the key ecdheKeyFor selects) is a premise of C10_holds_if; it is C18_keys_retained for "
             "ApplyPreset's keys and is evaluated on the real UConn of every class on every run (CInst)",
             "view = wire image (synced) and advertised versions accepted by Config (versions_ok): evaluated per class on every run",
             "first handshake, no ECH configured, no QUIC (C23), full handshake (resumption is C19)"],
    level_text="The full statement (every well-formed hello completes on every compliant flight) is refuted with two classes of witnesses: a hello "
               "carrying pre_shared_key answered by a HelloRetryRequest, and a HelloRetryRequest for a hybrid group listed without a key share; "
               "before the C18 repair also a server selecting the second classical share. Proved: outside these classes every spec satisfying "
               "spec_ok completes on every compliant flight (TLS 1.3 direct / HRR with new group / HRR with cookie, TLS 1.0-1.2) on exactly the "
               "server's choices. Partial: crypto abstracted, tied to the Go client by correspondence over the configuration grid.",
)

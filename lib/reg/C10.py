ENTRY = dict(
    gen=["parrots"],
    runner="C10", pkg="./cmd/c10", corr=["Corr.C10Corr"], n=dict(quick=1700, thorough=17100), runner_timeout=2400,
    rule="spec classes: the 38 predefined parrots, reproducible randomized fingerprints (10 quick / 200 thorough), fingerprinted copies "
         "(Fingerprinter on the class's own ClientHello, re-applied as HelloCustom) of every parrot and of a rotating quarter of the randomized "
         "ones, custom specs: five shares, hybrid-only, P-384 only (TLSVersMin 1.0); supported_versions lists in descending / ascending / shuffled "
         "order with GREASE at any position, TLSVersMin/TLSVersMax unset (0) and set (8 fixed + 3 quick / 12 thorough drawn from the seed); "
         "key_share lists over order and multiplicity (classical before / after the hybrid share, several classical shares around it, either "
         "hybrid group: 12 fixed lists + 4 quick / 24 thorough permutations drawn from the seed), every share selection of them in every tier; "
         "re-preset sequences on one UConn (ApplyPreset twice / three times with the same spec, a different spec first: Chrome_133, five shares, "
         "hybrid-only, a fingerprinted spec twice). A class that does not build is a failure (build/<class>). When the wire hello lists its "
         "versions in a non-descending order every server is pinned to one version (MinVersion = MaxVersion). Per class one honest probe handshake, then one "
         "loopback-TCP handshake per server configuration derived from the class's own WIRE hello: each advertised version as the server's "
         "maximum (TLS 1.0/1.1/1.2/1.3); each offered group of {X25519,P-256,P-384,P-521,X25519MLKEM768} alone in CurvePreferences - a share "
         "the hello sent (direct), or a HelloRetryRequest, the HRR groups crossed with every offered TLS 1.3 suite; each offered TLS 1.3 suite; "
         "each offered implemented legacy suite alone at each advertised version <= 1.2 (families AEAD / CBC / RC4); each protocol of the wire "
         "ALPN list alone and none, under client Configs with NextProtos unset / preset to a disjoint list / preset to an overlapping list / a "
         "*Config shared with an earlier UConn of a parrot whose ALPN list differs; ECDSA / RSA / Ed25519 leaf alone when signature_algorithms "
         "offers a usable scheme; each advertised certificate-compression algorithm; a server requesting a client certificate (optional client "
         "authentication, the client answers with an empty Certificate) at each advertised version, together with each certificate-compression "
         "algorithm, and after a HelloRetryRequest (CRunQ); *_PSK parrots: resumption attempt answered by a "
         "HelloRetryRequest. After every completed handshake the client Writes 1, 2, 17, 16384 and 20000 bytes (each (n, err) recorded, CWrite "
         "per distinct (version, suite family, size)), the server echoes all of it. Quick: always every version (derived classes: 1.2 and 1.3), client authentication at 1.3, one compression algorithm alone and with client authentication, every share selection, per "
         "TLS 1.3 suite one HRR group, one suite per (version, family), one ALPN pick per Config variant, the excluded classes; the rest 1 in 9 "
         "(parrots, custom) / 1 in 24 (randomized, fingerprinted), rotating with the seed; thorough: full product. A configuration the server "
         "itself rejects is counted, not a case. Distinct by (kind, class, choice); non-trivial unless the plain 1.3 / first-share run.",
    trusted_base=["verif_server.go scripted server (library's own server sub-steps; honest except for the HelloRetryRequest group / TLS 1.3 suite / "
                  "certificate compression it is told to select from the offered sets) and verif_c12.go view accessors",
                  "harness/hs ClientHello wire parser", "Go crypto/x509 against a throw-away CA (ECDSA, RSA, Ed25519 leaves)",
                  "cryptography, certificate validation, Finished and record protection abstracted into the flight's f_crypto_ok bit; signature-algorithm "
                  "choice is exercised by the runs only"],
    assumes=["keys_ok (every generated share backed by the key ecdheKeyFor selects) is a premise of C10_holds_if; it is C18_keys_retained for "
             "ApplyPreset's keys and is evaluated on the real UConn of every class on every run (CInst)",
             "view = wire image (synced) and advertised versions accepted by Config (versions_ok): evaluated per class on every run",
             "first handshake, no ECH configured, no QUIC (C23), full handshake (resumption is C19)"],
    level_text="The full statement (every well-formed hello completes on every compliant flight) is refuted with two classes of witnesses: a hello "
               "carrying pre_shared_key answered by a HelloRetryRequest, and a HelloRetryRequest for a hybrid group listed without a key share; "
               "before the C18 repair also a server selecting the second classical share. Proved: outside these classes every spec satisfying "
               "spec_ok completes on every compliant flight (TLS 1.3 direct / HRR with new group / HRR with cookie, TLS 1.0-1.2) on exactly the "
               "server's choices. Partial: crypto abstracted, tied to the Go client by correspondence over the configuration grid.",
)

ENTRY = dict(
    runner="C09", pkg="./cmd/c09", corr=["Corr.C09Corr"], n=dict(quick=80, thorough=2500), runner_timeout=3000,
    rule="n random 32-byte seeds (plus a fixed 2-seed corpus holding the two F-09 witnesses) x {DefaultWeights (id.Weights nil, "
         "every 7th an explicit copy), all-0, all-1, random weights (uniform in [-0.2,1.2], {0,1}, and float64 boundary values "
         "incl. NaN/+-Inf/1e308)} with the variant rotating over Randomized/-ALPN/-NoALPN, 4 server names, 6 NextProtos settings; "
         "4 non-randomized ids (error path); the cipherSuites/defaultCipherSuitesTLS13 tables, the constants, DefaultWeights and the "
         "sequence of id.Weights.X references / FlipWeightedCoin calls in the source of generateRandomizedSpec (coin table) as drift cases; n/4 direct calls of removeRandomCiphers/removeRC4Ciphers (random lists, boundary weights) and n/16 of "
         "shuffledCiphers. Each input is built TWICE from ONE ClientHelloID object (one *PRNGSeed, one *Weights, via the hook), and again "
         "through two UClient(...,id)+BuildHandshakeState sharing the Seed pointer: both results equal, equal to each other across the "
         "two paths, and seed / weights / id fields / NextProtos / DefaultWeights unchanged after every build (determinism + inputs-not-"
         "mutated oracle; the seed bytes after the two builds are also a Coq-checked observable of every CGen case); the SHAKE256 stream and the "
         "HKDF-salted ALPS stream are recomputed with x/crypto and the model must reproduce the spec exactly (suites, extension "
         "order, every parameter). Distinct by (id, seed, weights, serverName, NextProtos); non-trivial when a spec was produced "
         "(helpers: list longer than 1).",
    trusted_base=["hooks/verif_c09.go accessors (generateRandomizedSpec, cipherSuites rows, helper wrappers, go:embed of u_parrots.go for the "
                  "id.Weights.X / FlipWeightedCoin scan behind the CCoins case)",
                  "x/crypto sha3 + hkdf (stream recomputation in the runner)",
                  "IEEE-754 float64 laws as premises of the weight theorems (monotone rounding; 0, 1, 2^63, 2^-63 exact); the executable rounding "
                  "rnf of Corr/C09Corr.v (shift-based round-to-nearest-even, same function as Prng.rne) is validated against Go on every case, "
                  "overflow to +-Inf modelled explicitly",
                  "rendering of ClientHelloSpec extensions into the abstract spec (runner observe())"],
    assumes=["streams long enough / rejection loops end within the fuel (16 redraws): model returns Err 99 otherwise, theorems are about Ok results",
             "weight-1 statements exclude streams with an all-zero 63-bit draw (nz), probability 2^-63 per draw",
             "Seed == nil (fresh crypto/rand seed) is outside the property; Weights == nil is DefaultWeights (checked)",
             "sort.Sort returns a permutation of its input with no later element Less than an earlier one (premise of C09_sort_unique; "
             "the model's list is then the only possible result, and it is compared with the code's on every case)"],
    level_text="Proof for every byte stream (superset of all seeds), every weights vector and every suite table: suite order, TLS 1.3 rules, "
               "ALPS=>ALPN, first suite kept; the weight-0/weight-1 corners for EVERY FlipWeightedCoin site via the 19-row table `coins` "
               "(C09_coins: weight<=0 => feature present iff forced by a TLS 1.3 rule / the -ALPN id; weight>=1 and no zero draw => present "
               "whenever the coin is flipped), the table being tied to the source text of generateRandomizedSpec by the CCoins case; "
               "math/rand Perm is a permutation for every stream, hence the cipher sort has a unique result independent of the sort "
               "algorithm (C09_sort_unique); key-share consistency refuted with real-seed witnesses and proved under the weight "
               "conditions that pin one of the two independent coins; determinism = purity (C09_deterministic, C09_build_twice: the model's build hands the id back unchanged) + two builds from one id "
               "object observed per input, seed-after = seed-before checked in Coq.",
)

ENTRY = dict(
    runner="C09", pkg="./cmd/c09", corr=["Corr.C09Corr"], n=dict(quick=300, thorough=20000),
    rule="placeholder",
    trusted_base=[], assumes=[],
)

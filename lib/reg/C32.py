ENTRY = dict(
    runner="C32", pkg="./cmd/c32", corr=["Corr.C32Corr"], gen=["dicttls"], n=dict(quick=120, thorough=3000),
    rule="Gen/Dict.v is regenerated from REPO/dicttls (go/parser + go/types, every Dict*ValueIndexed/NameIndexed variable) before the "
         "proof build; the 28 compiled table pairs are compared entry by entry with the generated tables (CDictLive) and checked on the Go "
         "side for value->name->value. JSON half: every listed parrot (2 connections) and max(n, 3*#types) runner-generated hellos that force, in turn, every extension type "
         "the JSON format can express (ExtensionFromID asked for all 2^16 ids; dictionary name + UnmarshalJSON) and whose cipher suites, "
         "groups and signature schemes are drawn from the WHOLE dictionaries are (a) rendered, from the parsed wire bytes, in the JSON format "
         "of ClientHelloSpec.UnmarshalJSON using the value-indexed names and imported, (b) imported raw by Fingerprinter.RawClientHello; both "
         "specs are applied to fresh connections with the same deterministic Config.Rand and the two wire hellos compared (suites, compression "
         "methods, extension order, extension bodies) after replacing GREASE values by 0x0a0a and blanking key_exchange / psk bodies (the padding extension is compared: presence and body length, with explicit JSON len whenever the hello's padding is not what BoringPaddingStyle would pick; generated hellos are short/normal/long with padding Boring/1/17/100/300/random). "
         "Every name of every table the importer consults (zero-valued code points included) is part of some compared hello (cursors + closing pass) "
         "and is also imported alone and as a whole table through each of the 10 list-valued JSON members, 5-7 unknown spellings per member "
         "must be refused. The name lists and the code points the importer produced go to Coq (CImportG/CImport); unknown names must be refused. Parts "
         "the JSON format cannot express (ECH, code points without dictionary name) are stripped from the wire hello before both imports. Distinct by "
         "(hello, name list); non-trivial when the list has at least two names / the table at least two entries.",
    trusted_base=["go/parser + go/types evaluation of the dicttls map literals (translator harness/cmd/c32/gen.go)",
                  "the runner's ClientHello parser and JSON renderer (harness/cmd/c32/wire.go, run.go)",
                  "encoding/json"],
    assumes=["Go map literals have unique keys (enforced by the Go type checker, which the translator runs), so an association list in source order is the map",
             "the JSON-vs-raw equality of whole hellos is observed on parrot and generated hellos (Go-side oracle), not proved: only the name->code-point loops of the importer are modelled"],
    level_text="Proof, exhaustive over the regenerated finite domain: every entry of every paired dicttls table resolves back to its value "
               "(forallb by vm_compute lifted with forallb_forall; the boolean check is proved equivalent to the statement); for the eight tables "
               "the JSON importer consults, render-then-import of any code-point list is the identity modulo GREASE (induction over the list). "
               "Partial: equality of JSON-imported and raw-imported hellos after ApplyPreset is observational (correspondence + Go-side oracle).",
)

ENTRY = dict(
    gen=["parrots"],
    runner="C02", pkg="./cmd/c02", corr=["Corr.C02Corr"], n=dict(quick=40, thorough=1500),
    rule="real UConns (UClient over a dummy net.Conn, BuildHandshakeState only): every predefined fingerprint x Config shapes "
         "(ServerName empty / IPv4 / IPv6 / bracketed IPv6 / trailing dot / 1, 253, 255 characters; NextProtos nil, one 255-byte "
         "name, five names, empty list; OmitEmptyPsk on/off; session cache on/off) - quick: the plain shape plus three rotating "
         "ones per fingerprint, thorough: all 14 plus a server-name length sweep; 16 (thorough: n) seeded randomized fingerprints "
         "incl. the ALPN/NoALPN variants; n generated custom specs inside the precondition (random subset of the 31 built-in "
         "extension types, each at most once, random order, pre_shared_key last, list/string fields at their minimum, small, "
         "medium and maximum sizes, three padding functors, header edits session id 0/1/31/32 and 1..3 compression methods) and "
         "n/2 unrestricted specs from harness/extcoq (empty lists, duplicates); a fixed corpus: extension blocks of 80008, 65536, "
         "70089, 70004 (thorough: 65535) bytes, session id 0/33/255/256, 0/255/256 compression methods, 0/32768 (thorough: 32767) "
         "cipher suites, 31-byte random, two padding extensions, no extensions; specs fingerprinted (Fingerprinter, both "
         "AllowBluntMimicry settings) from the library's own ClientHellos (quick: 12 fingerprints) and re-applied with another "
         "server name; the four testdata/ClientHello-JSON-*.json specs; three (thorough: 12) UQUICClient hellos; a GREASE matrix: specs with one "
         "or two UtlsGREASEExtensions whose Value is unset / the placeholder / each of the 16 GREASE values (one explicit + one drawn, "
         "both drawn, both explicit) under Config.Rand = 16 constant-byte readers (one per GREASE seed class), 3 counting readers "
         "(thorough: + 40 seeded), about 2600 builds, all walked by the Go oracle and every 20th (and every rejected one) sent to the "
         "Coq oracle; the generated custom specs likewise draw explicit GREASE values and constant / counting / seeded readers; the "
         "SECOND ClientHello after a HelloRetryRequest (loopback TCP, scripted server sending a cookie and, when possible, a selected "
         "group): custom TLS 1.3 specs ending in FakePreSharedKeyExtension (1 and 2 identities), in UtlsPreSharedKeyExtension, "
         "without pre_shared_key, with an own CookieExtension, a spec fingerprinted from a resuming hello - 64 (thorough: 400) "
         "handshakes each because the cookie position is drawn from crypto/rand - and every predefined fingerprint once (PSK ones "
         "12 times); every second hello walked by the Go oracle, one Coq oracle case per distinct cookie position; a "
         "LIMITS table derived from the wire limits of Model/ExtSpec.v: every one-byte-prefixed vector of every extension type "
         "(supported_versions, cert-compression algorithms, PSK modes, point formats, ALPN / ALPS / ALPS-new protocol name, "
         "renegotiated_connection, token-binding parameters, PSK binder) with element counts giving 254 and 255 bytes (must encode to "
         "a valid hello) and 256 and 257 bytes plus 255 ELEMENTS of two-byte types (must be an error from BuildHandshakeState, or "
         "from Handshake before a byte is written); every two-byte-prefixed vector (SNI host, groups, sigalgs, sigalgs-cert, "
         "delegated credentials, ALPN list, key-share data, cookie, session ticket, GREASE body, PSK identity, padding) sized so "
         "that the extension block is exactly 65535 bytes (must encode) and 65536 (must be an error) and the vector alone at "
         "65535/65536 bytes (error) - quick: groups, ALPN list and a seed-rotated third of the others, thorough: all; the small cases "
         "also go to the model, the 64 KiB ones through the Go-side oracles only; a CARRY sweep: every two-byte-prefixed vector at every "
         "size n in [W-framing-2, W+1] for W = 256 and 512, so that each of its nested length prefixes (n, n+k1, n+k2, ...) is seen on "
         "both sides of its own byte carry while its neighbours are not (about 300 builds, all through the Go walker, every sixth of "
         "the first window through the model), and per predefined fingerprint one Config.ServerName of 246..253 bytes (rotating), the "
         "window in which the three server_name prefixes cross 256 within the DNS limit; the whole LIMITS / CARRY table runs twice - "
         "under a Config that leaves them empty and under a Config whose ServerName, NextProtos, CurvePreferences and Renegotiation "
         "(every field ApplyConfig / writeToUConn copies from the spec's extensions) already hold the caller's own well-formed values, "
         "so that a check made on the Config instead of on what is marshalled is exposed; a third of the generated custom specs get "
         "such a prefilled Config too. Every produced "
         "Hello.Raw goes to the Coq oracle valid_chb (OracleCase) and to the independent Go walker; every custom spec also to the "
         "model of MarshalClientHelloNoECH (header fields + each extension object as a Coq term), which must reproduce Hello.Raw "
         "byte for byte or return an error when the code does. Distinct by (fingerprint, shape) resp. spec index; non-trivial "
         "when a hello of more than 60 bytes was produced / the build succeeded with at least one extension.",
    trusted_base=["harness/extcoq (reflection-based renderer of Go extension values as Coq terms; copy of hostnameInSNI)",
                  "independent Go ClientHello walker harness/cmd/c02/strict.go (Go-side oracle)",
                  "Go 1.24 bufio.Writer / bytes.Buffer semantics as transcribed in Model/Marshal.v (C05), tied by the byte-for-byte runs"],
    assumes=["ApplyPreset / ApplyConfig / session loading are not modelled here: the model starts from the header fields and "
             "extension objects found on the UConn when MarshalClientHello runs (their effect on the bytes is covered by the oracle "
             "on every produced hello)",
             "real ECH (Config.EncryptedClientHelloConfigList) marshals through a different function and is outside this check (C15)",
             "a byte list handed to strict_parse consists of bytes (premise bytes_ok of C02_strict_sound)"],
    level_text="Proof, for every header, extension list, padding policy and bytes.Buffer behaviour, that the (fixed) "
               "MarshalClientHelloNoECH over all 31 built-in extension codecs returns a hello accepted by an independent strict RFC "
               "grammar (exact length prefixes, per-extension body grammars, no duplicate type, pre_shared_key last) or an error, and "
               "an error for every spec whose totals exceed a length field; the grammar itself is proved sound and complete w.r.t. "
               "the length-prefix layout. Tied to the code by byte-for-byte correspondence on generated specs and by applying the "
               "proved oracle to every hello the library produced for parrots, randomized, fingerprinted, JSON and QUIC inputs.",
)

ENTRY = dict(
    runner="C06", pkg="./cmd/c06", corr=["Corr.C06Corr"], n=dict(quick=24, thorough=600),
    rule="every parrot UTLSIdToSpec accepts (the PSK parrots as resuming hellos: their spec with a filled FakePreSharedKeyExtension), n "
         "randomized fingerprints and 2n generated custom specs cycling through the shapes tls13 / legacy (TLSVersMin/Max in TLS 1.0..1.2, no "
         "supported_versions) / legacy-sv (supported_versions without 1.3) / scsv (suite lists with 0x5600, 0x00ff, unknown code points) / "
         "psk-padding (BoringPadding + non-empty pre_shared_key in the padding range) / psk, ech (GREASE ECH with an encapsulated key of 32/65/97/133 bytes or generated, payload lengths 1..300, every KDF/AEAD; also in the general extension pool), key_share lists of five shapes with GREASE key_exchange of 1/2/3/8/32 bytes and GREASE extension bodies of 0/1/4 bytes, record-layer version varied up to the "
         "legacy_version; each built by the code for server name A, fingerprinted under {none, AllowBluntMimicry+AlwaysAddPadding, "
         "RealPSKResumption} (all three for parrots, in turn otherwise), re-applied to a HelloCustom connection (OmitEmptyPsk) with a server "
         "name B of the same length, rebuilt, fingerprinted again and rebuilt again (second generation). Go-side oracle on every round trip: "
         "legacy version, cipher suites, compression methods, extension order and normalised extension bodies agree (GREASE -> 0x0a0a; SNI, "
         "key-share keys, ticket, PSK, ECH-GREASE bytes zeroed at equal length; padding body dropped), total lengths agree, the two "
         "fingerprints agree (types, suites, compression, version bounds) and the second generation equals the first in shape and length. "
         "Excluded: the padding extension AlwaysAddPadding adds to a capture without one, and pre_shared_key under RealPSKResumption (no "
         "session). Coq cases (packed bytes) for hellos of at most 700 bytes (2000 at thorough): CFp on the captured AND the regenerated "
         "hello (version bounds, suites, extensions, padding target vs the model) and CIdem (idempotence oracle evaluated by the model). "
         "Distinct by (hello index, flags, captured/regenerated); non-trivial with >= 1 extension.",
    trusted_base=["harness/extcoq (renderer of extension values)", "harness/cmd/c06 ClientHello parser and normalisation (Go-side oracle)",
                  "C08 (ext_read / ext_write model tie) and C05 (MarshalClientHello framing) for the claim that hello_record is what the code emits"],
    assumes=["the theorems speak about hello_record, the RFC encoding of a hello given by extension values; that MarshalClientHello emits "
             "exactly this is C05_marshal_framing + C08_read_layout, and the runner feeds the really emitted bytes to the same from_raw",
             "ApplyPreset's refilling of per-connection fields is observed (Go oracle), not modelled",
             "with AlwaysAddPadding on a capture without padding the added padding extension and the length are excluded from the comparison"],
    level_text="Proof: FromRaw applied to the wire image of any hello within its length-prefix limits whose extensions are round-trippable "
               "returns exactly the normalised description (order, bodies, GREASE -> placeholder, holes emptied); hellos of the same shape "
               "fingerprint to equal specs (idempotence); equal part sizes give equal total length. Correspondence and a Go-side oracle "
               "written from the property text on every parrot, randomized and generated hello under three flag sets.",
)

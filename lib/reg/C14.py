ENTRY = dict(
    runner="C14", pkg="./cmd/c14", corr=["Corr.C14Corr"], n=dict(quick=95, thorough=2000),
    rule="real handshakes over loopback TCP: the plain tls.Client entry point, UClient(HelloGolang) and parrots (quick: those two, "
         "Chrome_120, Firefox_120, Chrome_112_PSK_Shuf; thorough adds 12 more parrots) against the Go server of the utls package, which "
         "presents one of 13 generated chains (leaf valid for S+O+P / S only / O only / P only / wrong name / untrusted CA / expired / "
         "not yet valid / outliving its CA; with an intermediate: trusted or untrusted root x intermediate outliving the leaf or "
         "expiring before it) x InsecureServerNameToVerify in {'', other name, '*'} x InsecureSkipTimeVerify x InsecureSkipVerify x "
         "TLS 1.2/1.3 x {no ECH, ECH accepted, ECH rejected with retry configs}; second connections over a shared "
         "name grid: Config.ServerName that never reaches SNI as configured (trailing dot, IPv4 / IPv6 / bracketed IPv6 literal; leaves "
         "with matching / other / no IP SAN) and clients without SNI (RemoveSNIExtension on Chrome_120 / Firefox_120, Chrome_120 spec "
         "without SNIExtension on HelloCustom); "
         "ClientSessionCache after 6 kinds of first connection x 24 second configurations (incl. client clock past the cached "
         "leaf's NotAfter). Every handshake is judged by Go's own x509 verifier called with the options the property text demands "
         "and emitted as a Coq case; per configuration the name/time evidently used is inferred from the passing leaves. Distinct by "
         "(configuration, leaf); non-trivial when a verification takes place (not InsecureSkipVerify, or ECH rejected).",
    trusted_base=["crypto/x509 itself (Certificate.Verify / VerifyHostname are uninterpreted parameters of the theorems)",
                  "the runner's small concrete X.509 (names, validity window, issuer), compared with crypto/x509 on every input used (CX509 cases)",
                  "Go server side of utls (certificate selection, ECH decryption/rejection, session tickets) as test equipment"],
    assumes=["an empty VerifyOptions.DNSName means no host name check (crypto/x509 API convention)",
             "the ECH public name is non-empty (pickECHConfig only accepts valid DNS names)",
             "ServerName, InsecureSkipVerify or InsecureServerNameToVerify is set (makeClientHello refuses other configs)",
             "no EncryptedClientHelloRejectionVerify / VerifyPeerCertificate / VerifyConnection callbacks in the 'exactly when' statements"],
    level_text="Proof of the decision logic for arbitrary X.509 behaviour (which roots/time/name reach Certificate.Verify in every branch, "
               "when its verdict is honoured, the cached-leaf re-check on resumption); partial with respect to X.509 itself, which is "
               "an uninterpreted parameter. Correspondence and a property-text oracle over real handshakes.",
)

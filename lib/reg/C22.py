ENTRY = dict(
    runner="C22", pkg="./cmd/c22", corr=["Corr.C22Corr"], n=dict(quick=300, thorough=2400), runner_timeout=1500,
    rule="(a) live TLS 1.3 handshakes on loopback TCP against the scripted server (verif_server.go): every predefined parrot whose spec "
         "carries ApplicationSettingsExtension / ApplicationSettingsExtensionNew, plus Firefox_120, Safari_16_0, IOS_14, HelloGolang and two "
         "randomized fingerprints (the client accepts ALPS whether or not it offered it) x server code point {17513, 17613} x 7 "
         "Config.ApplicationSettings maps (h2 only, h2+http/1.1, with an entry under the empty name = the F-22 witness, other protocol only, "
         "nil, empty values, 300-byte values) x the ALPN protocol the server selects (h2 / http/1.1) x server settings of 0..32 random "
         "bytes; both code points in one message; negatives: ALPS without ALPN, with an unoffered ALPN protocol, next to early_data / "
         "quic_transport_parameters, no ALPS at all, and an ALPS extension added to a TLS 1.2 / 1.1 ServerHello; mutual TLS rows (server sends CertificateRequest, client answers with a certificate or an empty one) with the ORDER of the client's second flight checked as the server meets it; two-connection histories sharing a ClientSessionCache and the server's ticket keys (PSK parrots, HelloGolang) whose second, PSK-resumed connection negotiates ALPS again, with and without ALPN. Observed: handshake "
         "completion on both sides (the server reads the client's EncryptedExtensions into its transcript before checking the client "
         "Finished), the client's alert, ConnectionState.PeerApplicationSettings / NegotiatedProtocol, the client EncryptedExtensions bytes "
         "the server read, the server's EncryptedExtensions plaintext. (b) parser level: encryptedExtensionsMsg.unmarshal on 20 "
         "EncryptedExtensions shapes under 7 byte-level mutations, utlsClientEncryptedExtensionsMsg.marshal on code points {0, 17513, 17613, 1, "
         "65535} x settings up to and beyond the 16-bit limits (zero padding described, not shipped), .unmarshal on every client "
         "EncryptedExtensions seen. Distinct by (parrot, scenario, code point, map, ALPN choice) resp. input bytes; non-trivial when the "
         "server sent ALPS resp. the parser accepted an ALPS extension.",
    trusted_base=["/repo/verif_server.go (scripted server: ALPS in EncryptedExtensions, ReadClientEE, MutateHandshakeMsg) and harness/hs",
                  "hooks/verif_c22.go (wrappers around encryptedExtensionsMsg.unmarshal and utlsClientEncryptedExtensionsMsg.marshal), "
                  "hooks/verif_c34.go (VerifC34UnmarshalClientEE), hooks/verif_c12.go (VerifClientViewOf: hello.alpnProtocols)",
                  "the runner's own 20-line decoder of a client EncryptedExtensions (Go-side oracle alps-local)",
                  "Model/RobustSrv.v cryptobyte model (shared with C34), Model/Negotiate.v check_alpn (shared with C12)"],
    assumes=["the Finished computation is an arbitrary function of the bytes hashed so far (Section variable fin); key schedule, record "
             "layer and the rest of the TLS 1.3 state machine are not modelled",
             "the client has no QUIC transport, offers no early data and has no ECH context",
             "Config.ApplicationSettings is a finite map with unique keys (association list, first match)",
             "'rejects below TLS 1.3' is read as: aborts, or neither exposes nor answers the settings (a TLS 1.2 ServerHello with an ALPS "
             "extension is an ignored unknown extension; utlsReadServerParameters' own version test is proved but unreachable in practice)"],
    level_text="Proof + correspondence on the FIXED code (fixes/C22-alps-local-key.diff): codec round trip of the client EncryptedExtensions for "
               "all settings the builder can encode, server settings on either code point -> PeerApplicationSettings, abort below TLS 1.3 / "
               "without ALPN, client EncryptedExtensions hashed before the client Finished so an in-order hashing server accepts it, and the "
               "configured settings for the negotiated protocol are what the server decodes. The code as found is refuted (F-22: lookup under "
               "the always-empty ServerHello ALPN) and the witness is replayed through the scripted server on every run.",
)

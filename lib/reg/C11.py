ENTRY = dict(
    runner="C11", pkg="./cmd/c11", corr=["Corr.C11Corr"], n=dict(quick=1384, thorough=1384), runner_timeout=900,
    rule="every predefined parrot (38) over loopback TCP against the STOCK server of the utls package (tls.Server): TLS 1.3; "
         "TLS 1.3 with a HelloRetryRequest (server CurvePreferences = P-256 resp. P-384 only); TLS 1.2 (server MaxVersion); server "
         "ALPN preferences {h2+http/1.1, http/1.1, none}; resumption at 1.3 and 1.2 (shared LRU ClientSessionCache, tickets on, "
         "second connection judged) with the server's ALPN preferences on the resumed connection the same / another protocol / none / "
         "one where the first had none; server-name variants: RemoveSNIExtension (1.3 and 1.2), IPv4 and bracketed IPv6 literals, mixed "
         "and upper case, trailing dot, punycode labels, a 253-character name, call sequences between UClient and Handshake (Handshake alone; "
         "build,remove; build,remove,build; remove,build,build; build,SetSNI; SetSNI,build,remove), the "
         "parrot's spec with the SNI extension deleted (HelloCustom + ApplyPreset); against the SCRIPTED server (verif_server.go) the flight "
         "shapes the stock one never sends: CompressedCertificate(brotli) with and without HelloRetryRequest, application_settings "
         "(17513 / 17613) answered by a client EncryptedExtensions message. Rows whose handshake does not succeed are "
         "counted and skipped (the property is about successful handshakes). Go-side oracle from the property text: Version, "
         "CipherSuite, NegotiatedProtocol, CurveID (VerifCurveID), DidResume, ECHAccepted, ServerName equal on both ends; both "
         "ServerNames equal the SNI parsed from the wire hello ('' if none); ExportKeyingMaterial equal (bytes or refusal) for 5 "
         "seeded random (label, context incl. nil/empty, length 1..255) triples, one of length 255. Coq: CName (server-name model "
         "on uconn.Extensions) for every successful row, CState (Complete.client_run10 with the tree's key-selection rule - detected by "
         "reflection on KeySharePrivateKeys.ExtraEcdhe - and the retained-key shape, and server_state, on the flight parsed from the "
         "server's plaintext messages) for every successful non-server-name row, CResume12 (Transcript.client_resume12) for TLS 1.2 resumptions. Distinct by (parrot, variant); CName "
         "is non-trivial when an SNI extension is on the wire or the row is a server-name variant.",
    trusted_base=["stock utls server as the peer (verif_server.go scripted server for the compressed-certificate and ALPS rows); verif_c12.go accessors (VerifClientViewOf, VerifCurveID)",
                  "harness/hs recording conn, ClientHello parser; the runner's ServerHello / ServerKeyExchange parser",
                  "harness/extcoq verbatim copy of hostnameInSNI",
                  "hash, HKDF, exporters, key agreement, signatures, Finished: uninterpreted / abstract in the model, real in the runs"],
    assumes=["no ECH (rows with ECH are not run: the stock peer would need the C15 ECH key setup; ECHAccepted is compared as false/false)",
             "at most one SNI extension in uconn.Extensions (two server_name extensions are refused by any server)",
             "both ends derive the same master secret (key agreement is exercised by the runs, not modelled)",
             "TLS 1.2 session-id (ticketless) resumption is not run: the stock server resumes by ticket only"],
    level_text="Proof for every flight shape that client and server feed identical bytes to the transcript hash up to the server "
               "Finished and up to the client Finished (HRR message-hash substitution, compressed certificate as sent, client ALPS "
               "EncryptedExtensions, client certificate), hence equal exporter output for any hash/KDF/exporter; proof for every "
               "view, retained-key shape and flight (before and after the C18 key-share repair) that a completed client reports the version, suite, group, ALPN and resumption bit carried by the "
               "server's messages; proof that the repaired client reports exactly the SNI on the wire (refuted for the code before "
               "fixes/C11-sni-reported-name.diff, F-11). Partial: cryptography is uninterpreted; tied by handshakes against the stock server.",
)

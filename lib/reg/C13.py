ENTRY = dict(
    gen=["parrots"],
    runner="C13", pkg="./cmd/c13", corr=["Corr.C13Corr"], n=dict(quick=1290, thorough=3100), runner_timeout=900,
    rule="every predefined parrot, 11 custom clients (TLSVersMax 1.2 under a supported_versions list {1.3,1.2}; lists with a hole {1.2,1.0}, "
         "{GREASE,1.3,1.1}, {1.3,1.0}; no supported_versions extension with TLSVersMin raised to 1.2 / 1.1; a 1.3 parrot stripped of the "
         "extension with TLSVersMax 1.2, with TLSVersMax left at 1.3 (min 1.2 and min 1.0), and built Firefox_105 / Chrome_120 UConns whose "
         "SupportedVersionsExtension is removed from uc.Extensions after BuildHandshakeState) and caller-side Config variations (MinVersion/MaxVersion pre-set wider 1.0..1.3 or narrower 1.2..1.2 than the spec, one "
         "*Config reused after a Firefox_102 UConn; HelloGolang via UClient and 4 parrots whose shared, uncloned *Config is widened BETWEEN the "
         "explicit BuildHandshakeState and the handshake by a sibling UConn of Chrome_58 / Firefox_102 or by the caller setting MinVersion 1.0) over loopback TCP against scripted servers: honest Go servers with MaxVersion "
         "1.0/1.1/1.2/1.3; legacy servers negotiating from legacy_version only with MaxVersion 1.0/1.1/1.2; servers forcing 1.0/1.1/1.2 with the "
         "RFC 8446 sentinel set by the library's rule / omitted / forced DOWNGRD\\x01 / forced DOWNGRD\\x00; forced 1.3 (client material "
         "fabricated when the hello did not offer it); TLS 1.3 named in the legacy version field; supported_versions in the ServerHello naming "
         "0x0305, the hello's own GREASE version, or 1.0/1.1/1.2. Two-connection histories over one ClientSessionCache (6 parrots + HelloGolang via "
         "UClient; all parrots in thorough): a TLS 1.2 server issues a ticket, then a TLS 1.2 answer from a 1.3-capable server (sentinel) or a 1.2 "
         "server (none), with the same ticket key (resumed) or another (full handshake). One instance case per client carries the spec's own "
         "minimum, Config Min/Max as SetTLSVers left them, hello.supportedVersions, the wire's supported_versions and legacy_version. Quick: legacy "
         "servers, honest 1.2/1.3 servers and the forced-1.2 sentinel for every parrot, custom specs against every scenario, Config variations "
         "for the custom specs and 7 parrots against the old-version servers, the rest rotates with the seed; thorough: full product. Distinct "
         "by (scenario, client, config mode); non-trivial when the handshake completed, a sentinel was present, or the server acted at an "
         "unadvertised version.",
    trusted_base=["verif_server.go scripted server and verif_c12.go view accessors", "harness/hs ClientHello wire parser",
                  "Go crypto/x509 against a throw-away CA",
                  "cryptography, certificate validation, Finished and record protection abstracted into the flight's f_crypto_ok bit"],
    assumes=["NegotiateVersP.versions_ok: hello.supportedVersions equals the supported_versions list on the wire when the extension is sent; without it "
             "it is the accepted versions up to legacy_version (fix 49ffec3) and the configured minimum is not below the spec's: checked for every "
             "client on every run, and PROVED from a model of writeToUConn/ApplyConfig/SetTLSVers and the marshal model (Props/C13.v "
             "C13_versions_view_is_wire, C13_version_advertised_from_spec/_from_preset, C13_canary_from_spec; notes/Compose.md) modulo the premises "
             "listed there: typed_ext (supported_versions not smuggled through a GenericExtension), wf_specb/spec_fitsb of ApplyPreset's output, "
             "spec minimum <= Config.MinVersion (SetTLSVers writes it unless an ECH config list is present)",
             "no ECH configured (Config.supportedVersions drops < 1.3 under ECH; modelled, not exercised); TLS 1.2 ticket resumption modelled (Model/NegotiateSess.v), session-id caches and TLS 1.3 PSK histories not exercised here"],
    level_text="Proof for every view, wire hello and server flight that a completed handshake is at an advertised version, and that a "
               "client whose hello lists TLS 1.3 completes only at 1.3 when the first server hello carries a downgrade sentinel; both "
               "statements refuted for the pre-repair code (Firefox_102 witness; custom spec witness) with the strongest true "
               "conditionals. Partial: tied to the Go client by correspondence, crypto abstracted.",
)

ENTRY = dict(
    runner="C13", pkg="./cmd/c13", corr=["Corr.C13Corr"], n=dict(quick=530, thorough=1010), runner_timeout=900,
    rule="every predefined parrot plus one custom spec (TLSVersMax 1.2 under a supported_versions list {1.3,1.2}) over loopback TCP "
         "against scripted servers: honest Go servers with MaxVersion 1.0/1.1/1.2/1.3; legacy servers negotiating from "
         "legacy_version only (supported_versions ignored) with MaxVersion 1.0/1.1/1.2; servers forcing 1.0/1.1/1.2 with the RFC 8446 "
         "sentinel set by the library's rule / omitted / forced DOWNGRD\\x01 / forced DOWNGRD\\x00; forced 1.3 (client material "
         "fabricated when the hello did not offer it); TLS 1.3 named in the legacy version field; supported_versions in the ServerHello "
         "naming 0x0305, the hello's own GREASE version, or 1.0/1.1/1.2. One instance case per parrot carries (Config Min/Max as written by "
         "SetTLSVers from the spec's TLSVersMin/Max, hello.supportedVersions, the wire's supported_versions and legacy_version). Quick: "
         "legacy servers (1.0/1.1/1.2), honest 1.2/1.3 servers and the forced-1.2 sentinel for every parrot, the custom spec against every scenario, the rest rotates with the seed; thorough: full product. "
         "Distinct by (scenario, parrot); non-trivial when the handshake completed, a sentinel was present, or the server acted at an "
         "unadvertised version.",
    trusted_base=["verif_server.go scripted server and verif_c12.go view accessors", "harness/hs ClientHello wire parser",
                  "Go crypto/x509 against a throw-away CA",
                  "cryptography, certificate validation, Finished and record protection abstracted into the flight's f_crypto_ok bit"],
    assumes=["hello.supportedVersions equals the supported_versions list on the wire when the extension is sent, and the configured range lies "
             "within [spec minimum .. legacy_version] when it is not (versions_synced): checked for every parrot on every run",
             "first handshake, no ECH configured (Config.supportedVersions drops < 1.3 under ECH; modelled, not exercised)"],
    level_text="Proof for every view, wire hello and server flight that a completed handshake is at an advertised version, and that a "
               "client whose hello lists TLS 1.3 completes only at 1.3 when the first server hello carries a downgrade sentinel; both "
               "statements refuted for the pre-repair code (Firefox_102 witness; custom spec witness) with the strongest true "
               "conditionals. Partial: tied to the Go client by correspondence, crypto abstracted.",
)

ENTRY = dict(
    runner="C12", pkg="./cmd/c12", corr=["Corr.C12Corr"], n=dict(quick=470, thorough=2120), runner_timeout=900,
    rule="every predefined parrot (38 ClientHelloIDs accepted by UTLSIdToSpec) over loopback TCP against the scripted server "
         "(verif_server.go), which forces ONE selection at a time drawn at run time from the complement of that very connection's "
         "parsed wire ClientHello: TLS 1.3 suite (implemented-but-unoffered, another GREASE value, unimplemented CCM suite, a TLS 1.2 "
         "suite), ServerHello key_share group (implemented group with a fabricated client share, GREASE), HelloRetryRequest group "
         "(P-521/P-384 when omitted, GREASE, x448/ffdhe), EncryptedExtensions ALPN, compression method 1, PSK selected_identity = "
         "number of offered identities, CompressedCertificate with an unadvertised algorithm, flipped/empty legacy_session_id echo; "
         "TLS 1.2 suite (implemented-but-unoffered, GREASE, a TLS 1.3 suite), ServerHello ALPN, compression 1, ECDHE "
         "ServerKeyExchange curve (implemented-but-unoffered, GREASE, re-signed); plus positive controls choosing an OFFERED value "
         "of each kind and honest 1.3/1.2 servers. Quick: every 'real' variant and the controls of every parrot, other variants "
         "rotate with the seed; thorough: full product, randomised variants three times. A case is distinct by "
         "(kind, variant, parrot, forced value); non-trivial when the forced value is unoffered or the handshake completed.",
    trusted_base=["verif_server.go scripted server (built from the library's own server sub-steps) and verif_c12.go view accessors",
                  "harness/hs ClientHello wire parser (offered sets)", "Go crypto/x509 against a throw-away CA",
                  "cryptography, certificate validation, Finished and record protection abstracted into the flight's f_crypto_ok bit"],
    assumes=["the client's view equals the offered sets on its wire hello (synced v w): checked for every parrot on every run, not proved "
             "for arbitrary custom specs (needs the ClientHello marshal model of C01/C02)",
             "first handshake, no ECH configured, no QUIC, no TLS 1.2 session resumption, PSK without a cached session omitted (OmitEmptyPsk)"],
    level_text="Proof for every view, wire hello and server flight that a completed handshake carries only offered selections "
               "(suite 1.3/1.2 incl. suite confusion, 1.3 group, HRR group, ALPN, compression, PSK index, certificate-compression "
               "algorithm, session-id echo, TLS 1.2 ECDHE curve after the repair; the pre-repair curve statement is refuted). Partial: "
               "the model is tied to the Go client by correspondence on every parrot x kind, crypto is abstracted.",
)

ENTRY = dict(
    gen=["parrots"],
    runner="C12", pkg="./cmd/c12", corr=["Corr.C12Corr"], n=dict(quick=940, thorough=5850), runner_timeout=900,
    rule="every predefined parrot (38 ClientHelloIDs accepted by UTLSIdToSpec) over loopback TCP against the scripted server "
         "(verif_server.go), which forces ONE selection at a time drawn at run time from the complement of that very connection's "
         "parsed wire ClientHello: TLS 1.3 suite (implemented-but-unoffered, another GREASE value, unimplemented CCM suite, a TLS 1.2 "
         "suite), ServerHello key_share group (implemented group with a fabricated client share, GREASE), HelloRetryRequest group "
         "(P-521/P-384 when omitted, GREASE, x448/ffdhe), EncryptedExtensions ALPN, compression method 1, PSK selected_identity = "
         "number of offered identities, CompressedCertificate with an unadvertised algorithm, flipped/empty legacy_session_id echo; "
         "TLS 1.2 suite (implemented-but-unoffered, GREASE, a TLS 1.3 suite), ServerHello ALPN, compression 1, ECDHE "
         "ServerKeyExchange curve (implemented-but-unoffered, GREASE, re-signed); plus positive controls choosing an OFFERED value "
         "of each kind and honest 1.3/1.2 servers. Multi-step situations: (a) the ServerHello kinds (session id, compression, GREASE / "
         "changed suite, unoffered / GREASE group) forced on the ServerHello that FOLLOWS a well-formed HelloRetryRequest (offered group without a "
         "share, else cookie only), also for HelloGolang via UClient; (b) stale offers: one HelloCustom UConn re-preset with a different spec "
         "(ApplyPreset A, BuildHandshakeStateWithoutSession, ApplyPreset B) and parrots whose uc.Extensions / Hello the caller edits after "
         "BuildHandshakeState (compress_certificate, ALPN, key_share entries or the whole extension, supported_groups entries or the whole "
         "extension, suites, legacy_session_id cleared so the hello goes out with an EMPTY id - also HelloGolang): the server selects a value the EARLIER hello offered and the one on the wire does not; (c) resumption: a session "
         "with suite 0xc009 from a real first connection handed with SetSessionState (or through the cache) to clients that do not offer it, "
         "resumed by the server; own-session ticket resumption; TLS 1.3 PSK accepted under a suite of another hash; (d) hellos whose only key share is a "
         "hybrid one (the server answers X25519 with the classical half of that share as client key), classical-only / second-share-only subsets, every "
         "implemented group without a share forced in turn. After EVERY handshake - completed or aborted - the suite, group and ALPN the "
         "connection reports are compared with the wire hello (oracle) and with Model/NegotiateReport.v. Quick: every 'real' variant and the controls of every parrot, other variants "
         "rotate with the seed; thorough: full product, randomised variants three times. A case is distinct by "
         "(kind, variant, parrot, forced value); non-trivial when the forced value is unoffered or the handshake completed.",
    trusted_base=["verif_server.go scripted server (built from the library's own server sub-steps) and verif_c12.go view accessors",
                  "harness/hs ClientHello wire parser (offered sets)", "Go crypto/x509 against a throw-away CA",
                  "cryptography, certificate validation, Finished and record protection abstracted into the flight's f_crypto_ok bit",
                  "Model/Complete.v client_run10 + Model/KeyShare.v kshape (C10/C18): key selection of establishHandshakeKeys; the retained-key shape and the tree flag are read from the UConn by reflection"],
    assumes=["the client's view equals the offered sets on its wire hello (synced v w): checked for every client on every run, and PROVED from a "
             "model of writeToUConn/ApplyConfig and the marshal model (Props/C12.v C12_view_is_wire and the *_from_spec theorems, notes/Compose.md) "
             "modulo the premises listed there: typed_ext (no negotiation extension smuggled through GenericExtension/GREASE), psk_agree (the PSK "
             "extension serialises what setPskToUConn wrote), wf_specb/spec_fitsb of ApplyPreset's output, compression list contains 0",
             "no ECH configured, no QUIC; TLS 1.2 ticket resumption and TLS 1.3 PSK modelled and exercised (Model/NegotiateSess.v), session-id (non-ticket) caches not (the Go server has none)"],
    level_text="Proof for every view, wire hello and server flight that a completed handshake carries only offered selections "
               "(suite 1.3/1.2 incl. suite confusion, 1.3 group, HRR group, ALPN, compression, PSK index, certificate-compression "
               "algorithm, session-id echo, TLS 1.2 ECDHE curve after the repair; the pre-repair curve statement is refuted). Partial: "
               "the model is tied to the Go client by correspondence on every parrot x kind, crypto is abstracted.",
)

ENTRY = dict(
    runner="C31", pkg="./cmd/c31", corr=["Corr.C31Corr"], n=dict(quick=200, thorough=3000),
    rule="(a) for each of the 11 public/private struct pairs of u_public.go: the declared field lists (reflect), the copy "
         "flows observed by setting one field at a time, 12+n/20 random fills of every field in both directions compared "
         "field by field (every second suite view carries an implemented suite id with otherwise random fields), nil in/nil out; "
         "views of the package's real cipher suites with one field (also the func-valued ones) replaced; conversion results must not share state "
         "with the package (alias check); re-conversion after a same-shape edit of every leaf of every field (convert, edit, convert again; Raw cleared in between), "
         "Marshal -> same-shape edit -> Marshal -> parse on valid views; the three rebuilt slices with nil / empty / 1-4 elements; (b) ClientHello bytes: every "
         "parrot's Hello.Raw from BuildHandshakeState on a connection-less UConn, randomized specs with harness seeds, generated "
         "valid field values, and 27 kinds of wire-level variants (valid: dropped/swapped/unknown extensions, SCSV, no extension "
         "block, SNI edits, status_request forms, empty key_share/psk_modes, session-id lengths, garbage header, added cookie/"
         "early_data/QUIC/ECH/renegotiation data/PSK; invalid: duplicate, truncation, trailing byte, PSK not last, bit flip, "
         "trailing-dot SNI, empty ALPN protocol) through Unmarshal->Marshal and parse->clear Raw->Marshal->parse. Distinct by "
         "(kind, input); non-trivial when the input is non-nil/non-empty resp. the hello parses.",
    trusted_base=["hooks/verif_c31.go (any-typed wrappers around the unexported conversions and clientHelloMsg.marshalMsg/unmarshal)",
                  "Go reflect + unsafe access to unexported fields in the runner",
                  "name rule for 'has a counterpart' in the runner: same name modulo first-letter case, plus Raw~original "
                  "(both hello messages), Ems~extendedMasterSecret, Prfv2~prf"],
    assumes=["func values, hash objects, key pointers and times are opaque identities",
             "input byte strings consist of bytes (bytes_ok: every element < 256)",
             "clientHelloMsg.marshalMsg modelled for echInner=false only"],
    level_text="Proof (structural, unbounded) of both round trips for every conversion pair on every field that has a counterpart, "
               "with the fields without counterpart listed by a theorem over field tables that the runner compares with reflect on "
               "every run; proof of Unmarshal->Marshal = input; proof, for every byte string the modelled parser accepts (all 19 known "
               "extensions, no well-formedness premise), that the parsed values are well-formed and that clear Raw -> Marshal -> parse "
               "gives equal field values whenever the re-marshal succeeds. The statement without that condition is refuted by a "
               "machine-checked witness (renegotiation SCSV + a full 65535-byte extension block: the re-marshal overflows the "
               "extension-block length), replayed on the real code by the runner on every check (finding remarshal/scsv-ext-block-overflow).",
)

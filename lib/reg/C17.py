ENTRY = dict(
    runner="C17", pkg="./cmd/c17", corr=["Corr.C17Corr"], n=dict(quick=625, thorough=2000), runner_timeout=900,
    rule="every predefined parrot whose wire hello offers TLS 1.3 with a key_share (found at run time), plus custom specs derived from the "
         "parrots that list a hybrid group with the key_share list replaced by hybrid-only / hybrid+P-256 / P-256-only / GREASE+hybrid / "
         "P-256+X25519 (HelloCustom + ApplyPreset), over loopback TCP against "
         "the scripted server (verif_server.go): a HelloRetryRequest for EACH classical group (X25519, P-256, P-384, P-521) the "
         "parrot lists in supported_groups without a share x cookie in {none, 1, 32, 255, 4094 bytes}, and x EVERY TLS 1.3 cipher suite the parrot "
         "offers (the server made to select 0x1301 / 0x1302 / 0x1303: SHA-256 and SHA-384 transcripts); one *tls.Config SHARED with a second "
         "UConn of another TLS 1.3 parrot that builds its handshake state between the first flight and the HelloRetryRequest (from the "
         "scripted server's OnClientHello): a partner listing a group this hello does not (HRR for it must be refused) resp. not listing "
         "the valid group (HRR must be accepted), with and without Config.CurvePreferences pre-set by the application; a cookie-only "
         "HelloRetryRequest (16 and 300 bytes); invalid ones: the first of P-521/P-384/P-256/X25519/x448 the parrot does not list "
         "(with and without cookie), each non-GREASE group it already sent a share for (X25519MLKEM768 included), and a "
         "HelloRetryRequest with neither group nor cookie. Both ClientHellos are cut out of the client's byte stream. "
         "Go-side oracle from the property text: handshake completes on the requested group with application data; header "
         "fields equal; all extensions except key_share/cookie/padding byte-identical and in the same order; exactly one fresh "
         "share of the right size for the group (its bytes occur in no key_exchange string of the first hello, whole or as a part); cookie echoed in exactly one extension iff sent; trailing pre_shared_key stays "
         "last; cookie index within [0, len-3]; invalid HRR => client error and no second hello. Coq cases: CStep (every run: "
         "uconn.Extensions skeleton before/after incl. padding state), CWire (byte-exact both hellos from extcoq-rendered "
         "extension values; quick: one per parrot, thorough: all but the 4094-byte cookies), CReject (alert = process_hrr). "
         "Distinct by (kind, parrot, group, cookie length); every case is non-trivial (a HelloRetryRequest was processed).",
    trusted_base=["verif_server.go scripted server (HRRGroup / HRRCookie / ForceHRR) and verif_c12.go view accessors",
                  "harness/hs loopback runner and ClientHello stream splitter; the runner's own (id, body) ClientHello parser",
                  "harness/extcoq rendering of uconn.Extensions (reflection on unexported GREASE-ECH / PSK fields)",
                  "Model/Marshal.v transcription of bufio/bytes.Buffer, Model/Ext.v encoders, Model/Prng.v Intn (each tied by its own property's correspondence)"],
    assumes=["no PSK identities and no real ECH (hs.echContext == nil), ClientHelloID != HelloGolang - the property's own scope",
             "an extension other than key_share / cookie / padding emits the same bytes in both marshals (model: HOther raw); observed "
             "for every built-in extension type the parrots use, GREASE ECH included",
             "at most one padding extension (two make every marshal fail: multi_pad_fails); len(hello.Random) = 32",
             "the PRNG stream is long enough for Intn's rejection loop (fuel)"],
    level_text="Proof for ALL extension lists, header fields, groups, key bytes, cookies and PRNG streams: the uTLS section of "
               "processHelloRetryRequest replaces the contents of every key_share extension by exactly the fresh share, sets or inserts "
               "exactly one cookie extension at an index in [0, max(0,len-3)] (never a panic, the last extension stays last), touches "
               "nothing else, and the re-marshal emits the unchanged header followed by each extension's own bytes with the padding "
               "recomputed for the new length; invalid HelloRetryRequests (unoffered group, shared group, no change) give "
               "illegal_parameter and no second hello. Partial: key generation, the transcript and the rest of the handshake are "
               "exercised by the runs only.",
)

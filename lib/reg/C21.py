ENTRY = dict(
    runner="C21", pkg="./cmd/c21", corr=["Corr.C21Corr"], n=dict(quick=66, thorough=1200),
    rule="certificate messages of 60 B .. 250 KiB (1-3 entries) compressed with compress/zlib (levels 1/6/9/0/HuffmanOnly, Flush at "
         "random cut points), andybalholm/brotli (quality 0/5/9/11, lgwin 10..22, Flush at cut points) and klauspost zstd (fastest/default/better/best, streaming with one "
         "frame per piece = generated chunkings, and one-shot Single_Segment encodes; frame headers parsed by the runner, declared Window_Size handed to the model) and handed to decompressCert through hooks/verif_c21.go; variations: valid, declared "
         "length +-1, extra decompressed bytes, unadvertised / unknown algorithm, truncated and bit-flipped streams, declared length "
         "above the 256 KiB limit; fixed corpus first (F-21a/F-21b/F-33 witnesses, messages of 70/130/200 KiB and exactly 256 KiB, limit+1); clients reconfigured through the public API between two BuildHandshakeState calls, 'advertised' read back from the final ClientHello bytes; 44 live TLS 1.3 loopback handshakes against the scripted server sending the real certificate as CompressedCertificate (three algorithms, flushed/framed encodings, with and without a preceding CertificateRequest, declared length +-1, unadvertised algorithm); every recovered certificate is kept and deep-compared again after each later decompression and at the end; CompressedCertificate marshal/unmarshal on "
         "random fields. The chunking given to the model is the one the same decoder delivers when replayed with the code's buffer "
         "schedule. Distinct by (encoder, size class, flush count, variation); non-trivial when the decoder delivered more than one "
         "chunk or the message was refused.",
    trusted_base=["shared harness/hs loopback driver + hooks/verif_server.go scripted server (live handshakes)", "hooks/verif_c21.go (fresh UConn + recording net.Conn around decompressCert)",
                  "brotli/zlib/zstd decoders are deterministic: the runner's replay of the decoder sees the chunking decompressCert saw",
                  "runner's reference structural parser of Certificate messages (parse_cert in the model is instantiated by it)"],
    assumes=["zstd frames declaring Window_Size above 8 MiB are refused (cap of fix 4697a7d for C33): recorded finding valid-stream-rejected/zstd-window-over-8MiB; C21_cc_recover_top carries the premise windows_ok",
             "decompressor modelled as an adversarial reader: any positive chunking of the decompressed bytes, clean end or error",
             "certificateMsgTLS13.unmarshal is a quantified function of the reconstructed message bytes",
             "the transcript clause is proved for the order of the certificate flight only (client_cert_flight); that CertificateVerify/Finished verify is observed in live handshakes"],
    level_text="Proof for every chunking/ending of the reader and every message up to the limit (fixed code); the code as found is refuted "
               "(F-21a single Read, F-21b longer output) with witnesses replayed on the real code; compressors as adversarial readers + correspondence.",
)

ENTRY = dict(
    runner="C35", pkg="./cmd/c35", corr=["Corr.C35Corr"], n=dict(quick=80, thorough=1200),
    rule="random SessionStates (all versions incl. out-of-range, client/server, 0..3 Ed25519 certificates, OCSP/SCT, verified "
         "chains, Extra, ALPN, boundary secret lengths) built through ParseSessionState of an independently written encoder and "
         "through MakeClientSessionState+setters (also ill-formed: empty/oversized secret, empty or foreign chains); their "
         "Bytes()/ParseSessionState incl. bit-flipped/truncated encodings; TicketKeyFromBytes on random 32-byte strings; per "
         "ticket EVERY single-bit flip, EVERY truncation (front and back), k=1..64 bytes prepended/appended/inserted, the ticket twice, two tickets glued, plus rotations that keep / drop the sealing key; families of Configs related by Clone with all three key sources in every order - SetSessionTicketKeys, the user-set SessionTicketKey field, automatic keys with clock advance - (clone before/after rotations, rotate original and clones, every member seals and cross-opens after every step); every state ever returned is kept and deep-compared again after each later operation and at the end (also: tickets of 60 B..1.5 KiB decrypted interleaved and on 4 goroutines); "
         "histories of SetSessionTicketKeys / SessionTicketKey / SessionTicketsDisabled / clock advance / EncryptTicket / "
         "DecryptTicket on one Config with recorded Rand and Time (explicit, legacy and auto-rotated keys); TLS 1.2/1.3 "
         "resumptions from a forged ClientSessionState over loopback TCP. Distinct by (kind, input); non-trivial when the "
         "state has certificates or Extra / the parse succeeds / the history holds at least two tickets.",
    trusted_base=["Go stdlib crypto/hmac, crypto/aes+cipher.NewCTR, crypto/sha512 (table values handed to the model)",
                  "crypto/x509.ParseCertificate as the meaning of x509ok (whitelist of the runner's certificates)",
                  "HMAC-SHA256 / AES-CTR / SHA-512 as Section variables with laws: CTR involutive and length preserving, tag 32 bytes, digest 64 bytes"],
    assumes=["EUF-CMA of HMAC-SHA256 is NOT proved: 'any modification yields no state' is proved only as 'acceptance implies a valid tag "
             "of a configured key over all non-tag bytes' + tag changes + truncation below 48 bytes; the rest is exhaustive per-ticket observation",
             "round trip stated for well-formed states (wf_state: the RFC-style struct constraints in ticket.go) that Bytes() can encode",
             "nil and empty []byte identified except ocspResponse/scts; activeCertHandles and ticket fields are not part of the encoding"],
    level_text="Proof (unbounded, every state/key list/iv) of the SessionState codec round trip, ticket round trip incl. rotation position, "
               "MAC coverage, tag-flip, truncation, rotated-out keys, key derivation; partial: cryptographic unforgeability named not proved, "
               "resumed-connection fields observed over loopback.",
)

ENTRY = dict(
    gen=["parrots"],
    runner="C18", pkg="./cmd/c18", corr=["Corr.C18Corr"], n=dict(quick=300, thorough=2500), runner_timeout=1500,
    rule="spec classes: the 38 predefined parrots, reproducible randomized fingerprints (16 quick / 200 thorough, seeds from the run seed), "
         "fingerprinted copies (Fingerprinter on the class's own ClientHello, re-applied as HelloCustom), custom specs (hybrid-only, hybrid + "
         "P-256, five shares, P-521/P-384/X25519, Kyber draft + P-384, GREASE + two shares, both hybrids, a share with caller-supplied Data) and three QUIC "
         "specs. Every non-GREASE wire share of every class except that last custom one must be fresh and backed whatever the spec object carries; "
         "re-preset sequences on one UConn (ApplyPreset two / three times with the same spec, another spec first: Chrome_133, five shares, hybrid-only, "
         "a fingerprinted spec twice; CReads over the draws of the last ApplyPreset); every retained private key must be the private half of a share "
         "on the wire (stale-key/<class>); fingerprinted copies additionally: CImport (captured key_share entries vs the spec the Fingerprinter built) and no share equal to the capture's. "
         "Per class: one build under a recording deterministic Config.Rand (wire shares, session id, retained keys, order of reads: CShape / "
         "CShapeQ / CReads); 10 (quick) / 200 (thorough; 50 for randomized and fingerprinted classes) builds under crypto/rand checking sizes, "
         "key backing and pairwise-distinct randoms / session ids / shares; one loopback handshake per generated share with the server's "
         "CurvePreferences set to that share's group alone (CSelect + oracle), for every class incl. all fingerprinted copies. Distinct by (kind of case, class[, group]); non-trivial when the "
         "hello has more than one share / the selected share is not the first.",
    trusted_base=["harness/hs ClientHello parser and the runner's key_share walker", "the library's own TLS 1.3 server (crypto/tls fork) as the compliant peer",
                  "crypto/ecdh and crypto/mlkem of the Go toolchain (public key derivation used to identify reads), reflection on KeySharePrivateKeys",
                  "key generation, Diffie-Hellman and ML-KEM are Section variables with the laws of Proofs/KeyShareP.v (public-key sizes, DH commutes within "
                  "a group and fails on a wrong-size peer share, decapsulation inverts encapsulation, key generation consumes at least one byte)"],
    assumes=["one key share per classical group and at most one hybrid share (wf_shares); a list with both hybrid groups loses the first ML-KEM key (modelled, not offered by any parrot)",
             "Config.Rand is a byte stream read sequentially; actual non-repetition of fresh bytes is observed over the sampled connections, not proved",
             "ECH, PSK binders and the HelloRetryRequest key (fresh key, C17) are outside this model"],
    level_text="Proof, for every crypto instance satisfying the laws, every stream, cursor and key-share list: sizes of generated shares; after the "
               "repair every generated share is backed by the key establishHandshakeKeys selects, so client and server secrets agree whichever share "
               "the server selects (the pre-repair statement is refuted: Firefox's P-256 share); the draws of random, session id and keys are "
               "contiguous, hence pairwise disjoint, also across connections; QUIC session id empty. Partial: tied to the Go code by correspondence "
               "(shapes, read order, selection outcome) on every class; freshness itself is observed.",
)

ENTRY = dict(
    gen=["suites"],
    runner="C28", pkg="./cmd/c28", corr=["Corr.C28Corr"], n=dict(quick=1, thorough=1), runner_timeout=1200,
    rule="every AEAD suite a crypto/tls server implements (6 AES-GCM and 2 ChaCha20 suites at TLS 1.2, the 3 TLS 1.3 suites): a "
         "uTLS client (custom spec offering exactly that suite/version) handshakes over loopback TCP. Every probe = GetOutKeystream(n), "
         "then a real record of n..n+39 bytes whose recorded ciphertext is compared byte by byte with plaintext xor keystream after the "
         "explicit nonce (Go-side oracle) and which the peer must read back. Scenarios per connection: n in {0,1,15,16,17,1000,16384} "
         "(thorough: 5 more rounds of random n); repeated equal/shrinking/growing n (1000,1000,16,17,5000,100,100,16384,3); the first "
         "carry of the record counter (plain writes up to record 253, then probes at 253..258). Against the uTLS server as peer (it has "
         "the hooks; quick: the 3 TLS 1.3 suites + one GCM + one ChaCha20 TLS 1.2 suite, thorough: all): TLS 1.3 histories of 4 key "
         "updates, alternately started by the client and requested by the peer, probes after each generation; both matched halves "
         "moved with VerifSetSeq to 2^16-2, 2^24-2, ... 2^56-2 and probed across each byte boundary. Cases pin len(ks), unchanged "
         "sequence number, type/version/length/explicit nonce of the record against the model; one CBC connection must be refused. "
         "Distinct by (suite, version, scenario, seq, n); non-trivial when n > 0.",
    trusted_base=["hooks/verif_c27.go (VerifRecordState), hooks/verif_c25.go (VerifSendKeyUpdate), hooks/verif_c28.go (VerifSetSeq): test equipment", "crypto/tls server of the Go toolchain as the peer",
                  "AEAD laws as premises (prims_ok): stream form, keystream independent of requested length, 16-byte tag"],
    assumes=["the AEAD is a stream cipher plus tag (true of AES-GCM and ChaCha20-Poly1305), stated as prims_ok",
             "n does not exceed the plaintext carried by the next record; no 64-bit sequence number wrap"],
    level_text="Proof, for every reachable write state (any history of writes, any sequence number) and every n up to the next "
               "record's payload, that GetOutKeystream(n) xor the next plaintext equals the next record's ciphertext after the "
               "explicit nonce, and that the call returns the connection unchanged (the xor-nonce wrapper restores its mask). "
               "Partial: the AEAD itself is a premise; the real ciphers are checked byte by byte by the runner on every AEAD suite.",
)

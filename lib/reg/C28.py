ENTRY = dict(
    gen=["suites"],
    runner="C28", pkg="./cmd/c28", corr=["Corr.C28Corr"], n=dict(quick=1, thorough=1), runner_timeout=1200,
    rule="every AEAD suite a crypto/tls server implements (6 AES-GCM and 2 ChaCha20 suites at TLS 1.2, the 3 TLS 1.3 suites): a "
         "uTLS client (custom spec offering exactly that suite/version) handshakes over loopback TCP; then, at successive sequence "
         "positions (3 rounds, thorough 8 with random n), for n in {0,1,15,16,17,1000,16384}: GetOutKeystream(n), a write of n..n+39 "
         "bytes, the recorded next record compared byte by byte with plaintext xor keystream after the explicit nonce (Go-side "
         "oracle), the peer must read the bytes back; cases pin len(ks), unchanged sequence number, type/version/length/explicit "
         "nonce of the record against the model; one CBC connection must be refused. Distinct by (suite, version, seq, n); "
         "non-trivial when n > 0.",
    trusted_base=["hooks/verif_c27.go (VerifRecordState)", "crypto/tls server of the Go toolchain as the peer",
                  "AEAD laws as premises (prims_ok): stream form, keystream independent of requested length, 16-byte tag"],
    assumes=["the AEAD is a stream cipher plus tag (true of AES-GCM and ChaCha20-Poly1305), stated as prims_ok",
             "n does not exceed the plaintext carried by the next record; no 64-bit sequence number wrap"],
    level_text="Proof, for every reachable write state (any history of writes, any sequence number) and every n up to the next "
               "record's payload, that GetOutKeystream(n) xor the next plaintext equals the next record's ciphertext after the "
               "explicit nonce, and that the call returns the connection unchanged (the xor-nonce wrapper restores its mask). "
               "Partial: the AEAD itself is a premise; the real ciphers are checked byte by byte by the runner on every AEAD suite.",
)

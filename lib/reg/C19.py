ENTRY = dict(
    runner="C19", pkg="./cmd/c19", corr=["Corr.C19Corr"], n=dict(quick=50, thorough=1500), runner_timeout=2400,
    rule="histories of 2..6 connections over loopback TCP sharing one tls.NewLRUClientSessionCache against the Go server of the utls "
         "package (session tickets on; TLS 1.2-only, TLS 1.3-only, TLS 1.3 with CurvePreferences forcing a HelloRetryRequest, "
         "TLS 1.2+1.3), one virtual clock for both ends. Corpus: every predefined ClientHelloID and 12 seeded randomized ones "
         "plus HelloCustom clients (ApplyPreset of parrot specs as is / without EMS / session_ticket / PSK, Fingerprinter copies, typed extensions replaced by a GenericExtension of the same id and body) "
         "(classified by reflection over their spec: session_ticket / pre_shared_key / extended_master_secret / psk modes) twice "
         "against each server kind; PSK parrots with and without OmitEmptyPsk and through a PatchBuiltHello length observer; pairs "
         "differing in extended_master_secret; server-name shapes (two DNS names, a trailing dot, IPv4/IPv6 literals reaching one listener, "
         "no ServerName with InsecureSkipVerify = remote-address key); clock advances up to 7 days + 1 s; InsecureSkipVerify mixes, InsecureServerNameToVerify (star, another covered name, an uncovered one) and InsecureSkipTimeVerify with an expired leaf; "
         "server version changes; the multi-step use on the resuming connection (BuildHandshakeState, then SetClientRandom or an ALPN "
         "value edited in place, then Handshake); servers rotating their ticket key mid-history; cache entries whose secret the "
         "test corrupts (the resumption must fail cleanly, the entry be evicted, the next connection complete). Then -n random histories. A history is one case (per connection: spec features, name, server, "
         "time, observed error class, DidResume, offered session kind, EMS in hello, HRR, cache content afterwards); every hello "
         "with pre_shared_key adds a length-accounting case. Distinct by the plan; non-trivial when some connection offered a session.",
    trusted_base=["hooks/verif_c19.go accessors for cached ClientSessionState fields",
                  "ClientHello parser and HRR detector of the runner (harness/cmd/c19/hello.go)",
                  "the Go server of the same package as the RFC-level peer",
                  "HMAC output size = hash size (premise of the binder theorem)"],
    assumes=["fewer server names in use than the LRU capacity (C36: the cache then is a map)",
             "strings (server names, remote addresses) are represented by identities assigned by the runner: equal id = equal string",
             "a connection without ServerName has InsecureSkipVerify or InsecureServerNameToVerify (otherwise the handshake is refused before the hello is built)",
             "the server's own cipher-suite choice and ticket length are inputs of the model (taken from the observation)",
             "binder validity is crypto: the model server accepts every binder; the real server's acceptance is observed",
             "HelloCustom clients set PreferSkipResumptionOnNilExtension (without it a missing session extension panics by design)",
             "no client certificates; no QUIC / 0-RTT; no ECH"],
    level_text="Proof (any history / any cache state) of: next-connection resumption for TLS 1.2 with session_ticket and TLS 1.3 with "
               "pre_shared_key, PSK last, binder patch length-neutral for any MAC of hash size, no cross-name offer, no EMS session "
               "in a hello without EMS (after the fix). Partial: the HelloRetryRequest clause is refuted for uTLS-built hellos "
               "(finding psk-hrr/*) and proved only for HelloGolang; the peer is a model of the Go server; crypto is abstract.",
)

ENTRY = dict(
    runner="C34", pkg="./cmd/c34", corr=["Corr.C34Corr"], n=dict(quick=200, thorough=3000), runner_timeout=1500,
    rule="(a) parser level, recover() around every call: well-formed client EncryptedExtensions (ALPS old/new codepoint, empty, "
         "unknown extension, two extensions) and CompressedCertificate messages under 8 byte-level mutations (truncate, bit flip, "
         "length bytes, inner length, appended bytes, random bytes) through utlsClientEncryptedExtensionsMsg.unmarshal, "
         "utlsCompressedCertificateMsg.unmarshal and Conn.unmarshalHandshakeMessage (server and client role, TLS 1.2/1.3), plus a "
         "sweep of all 256 type bytes; (b) live utls servers on loopback TCP (TLS 1.3, TLS 1.3+client auth, TLS 1.2, TLS 1.2+client "
         "auth, any version+optional client auth; session tickets on), every Handshake/Read under a 3 s deadline with recover(): "
         "ClientHellos of all 39 parrots under 26 field-wise mutations; 9 client-EE/CompressedCertificate messages injected at "
         "positions 0-5 of a scripted TLS 1.3 client (plaintext before/after ClientHello, under handshake keys before the client "
         "flight, after the server Finished, after the client Certificate, under application keys after the handshake) and at 3 "
         "positions of a TLS 1.2 client; 10 kinds of raw record streams; well-formed hellos whose single key share (X25519MLKEM768, "
         "X25519, P-256, P-384, P-521) has a boundary length (0,1,31,32,33,1183..1185,1215..1217 / point size +-1) with all length "
         "prefixes fixed up and key_share last, last-but-one or first in the extension list, against servers preferring only that "
         "group, and the same lengths in the SECOND ClientHello after a server-issued HelloRetryRequest; second ClientHellos after a HelloRetryRequest that differ "
         "from the first in exactly one field (every list-valued extension longer/shorter/changed/removed/added, suites, compression, "
         "session id, random, version); every (form in hello #1, form in hello #2) pair of encrypted_client_hello (10 forms, servers without and with "
         "an ECH configuration) and pre_shared_key (4 forms) across a HelloRetryRequest; crafted CBC records after a completed TLS 1.0/1.1/1.2 handshake on CBC suites (all-padding, "
         "no room for the MAC, MAC-only, inconsistent padding, 0/1/16384/16385/18500-byte regular records); 8 callback-bearing server "
         "configurations (UnwrapSession/WrapSession, GetConfigForClient, GetCertificate, VerifyConnection, client-auth variants) x "
         "{garbage PSK identities of 1..2000 bytes, genuine resumption by HelloGolang and every PSK parrot, and the genuine resumption hello re-sent with 18 structural edits "
         "of its pre_shared_key extension (bogus identities around the real ticket, fewer/more binders, duplicates, truncated binder)}; 15 kinds of post-handshake client traffic after a completed TLS 1.3 handshake by a Go-style and a Chrome_133 client "
         "(KeyUpdate requested / not requested / x20 / x40 / malformed / unratcheted, NewSessionTicket, CertificateRequest, Finished, "
         "ClientHello, client EE, CompressedCertificate, unknown type) x {client closes, client closes and the server's writes fail, "
         "client stops reading and the server's writes block until the deadline}, server in Read under the watchdog. Distinct by (function/read point, input); non-trivial when "
         "the parser accepted resp. a read point was identified from the server's error.",
    trusted_base=["hooks/verif_c34.go (wrappers around the two unmarshalers and Conn.unmarshalHandshakeMessage; scripted TLS 1.3 client "
                  "built from the package's own client sub-steps with injection points; raw handshake-record writer)",
                  "the server's error text 'unexpected handshake message of type X when waiting for Y' to identify the read point",
                  "loopback TCP and the Go scheduler (a hang is 'server goroutine not returned 2 s after the 3 s connection deadline')"],
    assumes=["upstream unmarshalers of the standard handshake messages are total boolean functions (Section variable std)",
             "bytes.Buffer.Next and append never panic"],
    level_text="Proof (partial): totality (no panic, no non-termination) of the uTLS-specific server-reachable code on all byte strings - "
               "readHandshake's header indexing and message-type switch with types 8/25, both uTLS unmarshalers down to cryptobyte's "
               "String.read - and unexpected_message for type 8/25 at each of the 11 server read points. The upstream state machine and "
               "standard unmarshalers are not modelled; they are exercised by mutation runs with recover()+deadline on every check.",
)

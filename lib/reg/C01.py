ENTRY = dict(
    runner="C01", pkg="./cmd/c01", corr=["Corr.C01Corr"], n=dict(quick=4, thorough=40),
    rule="one real UConn per run over a recording net.Conn on loopback TCP against the scripted server of verif_server.go: every "
         "predefined fingerprint plus 3 (thorough: 12) seeded randomized ones x 4 (thorough: n) runs, server behaviour rotating over "
         "ServerHello / HelloRetryRequest with selected group + cookie / cookie only / group only (the group is one the hello lists "
         "without a share; TLS 1.2-only and PSK fingerprints get a plain server); after the first BuildHandshakeState a generated "
         "list of 1..4 (thorough: 1..8) public calls out of SetClientRandom (32 bytes; 31/33/0 bytes must be refused), SetSNI (name, "
         "trailing dot, IPv4, bracketed IPv6, empty, one character), Hello.SessionId (32/31/16/1 bytes, zero-length, nil), "
         "Hello.CipherSuites reordered / cut to one / empty (the server then refuses the hello), insert / remove / replace of an object in uconn.Extensions "
         "(never a session or pre_shared_key extension) and further BuildHandshakeState calls, then Handshake; RESUMING connections: a first connection against the same server "
         "Config fills the session cache, the observed one loads the session in its first BuildHandshakeState (pre_shared_key with "
         "binders against a TLS 1.3 server, session_ticket against a TLS 1.2 one), is edited (SetClientRandom, Hello.SessionId, "
         "Hello.CipherSuites, replaced extension objects, further builds - not SetSNI, which is the cache key, nor insert / remove) "
         "and Handshake re-marshals the hello and recomputes the binders: every fingerprint once with TLS 1.3 and a seed-rotated "
         "third with TLS 1.2, fingerprints carrying a UtlsPreSharedKeyExtension 4 (thorough: 24) times; the model receives the "
         "session-bound extension objects as they are after the handshake (binders are crypto) and must reproduce every other byte. "
         "A panic of BuildHandshakeState / Handshake after documented edits is a failure (panic/<call>/<fingerprint>). Observed: the "
         "ClientHello handshake messages in the recorded stream, Hello.Raw after each BuildHandshakeState and after Handshake. "
         "Go-side oracle from the property text: first wire hello == Hello.Raw of a BuildHandshakeState made right before Handshake, "
         "Hello.Raw afterwards == last hello sent (second one after a HelloRetryRequest), every edit readable in the parsed first "
         "wire hello. Coq case: header fields and every extension object after the first build, the call list and what the "
         "HelloRetryRequest carried, replayed on Model/UConn.v: both hellos byte for byte. Distinct by (fingerprint, run index); "
         "non-trivial when at least one call was made between the first build and Handshake.",
    trusted_base=["harness/extcoq (renderer of extension objects; copy of hostnameInSNI)",
                  "hooks/verif_server.go scripted server (HRRGroup / HRRCookie) and harness/hs (RecConn, ClientHellosFromStream)",
                  "the model of MarshalClientHelloNoECH shared with C02 (Model/ChMarshal.v over Marshal.v / Ext.v)"],
    assumes=["ApplyPreset is an input: the model starts from the header fields and extension objects found after the first "
             "BuildHandshakeState (C03 models how a fingerprint produces them)",
             "ApplyConfig and session loading do not touch the five marshalled header fields or the extension objects (no session "
             "cache, no PSK identities in these runs; observed byte for byte)",
             "the server sends a legal HelloRetryRequest; PSK + HelloRetryRequest is refused by the library (DESIGN F-19b)",
             "edits are made after BuildHandshakeState as the property says (after BuildHandshakeStateWithoutSession the unfixed tree "
             "re-applies the preset: C20's finding/fix)"],
    level_text="Proof over every state and every list of public calls of the UConn model: the first ClientHello a Handshake writes is "
               "Hello.Raw as rebuilt at handshake start = the marshalling of the current header fields and extension objects; edits made "
               "after BuildHandshakeState reach the wire unchanged and are read back by the independent strict parser of C02; Hello.Raw "
               "afterwards is the last ClientHello sent (the re-marshalled one after a HelloRetryRequest). Tied to the code by replaying "
               "generated call lists on real connections, both hellos byte for byte, with a model-free Go oracle for the same statements.",
)

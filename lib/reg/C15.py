ENTRY = dict(
    runner="C15", pkg="./cmd/c15", corr=["Corr.C15Corr"], n=dict(quick=90, thorough=1500),
    runner_timeout=1500,
    rule="(a) end to end: a utls ECH server (Config.EncryptedClientHelloKeys) over loopback TCP x HelloGolang and every "
         "predefined ClientHelloID whose spec carries an EncryptedClientHelloExtension (found at run time) x {accept, accept "
         "after a HelloRetryRequest forced by server CurvePreferences=[P-384], reject: the client holds a config whose key the "
         "server lacks, the server's cert is valid for the public name and it sends retry configs} x server names of 9..253 "
         "bytes x config id / max_name_length {0,16,32,64,128,255} / AEAD lists; recorded: every byte the client wrote, both "
         "ConnectionStates, ClientHelloInfo.ServerName at the server, the client error; each utls hello also yields a case "
         "replaying computeAndUpdateOuterECHExtension in the model (byte-exact outer hello, HRR key-share update, outcome); "
         "(a2) variants: the spec's SNIExtension already names the real server when the ECH connection applies it (custom spec "
         "pre-filled by the caller; SNIExtension object shared with a spec used by an earlier non-ECH connection), checked by the "
         "same name-leak/outer-sni oracle and a CPreset case per ApplyPreset; ONE server Config with 2 or 4 ECH keys (some "
         "SendAsRetry=false) serving a history of stale / old-key / current-key clients: every configured key must be accepted every "
         "time and every retry list must be exactly the SendAsRetry configs in order (CServer case per connection); "
         "(b) unit: encodeInnerClientHello[ReorderOuterExts] on random clientHelloMsg values with random outerExts "
         "(shuffled, thinned, duplicated, foreign ids, nil); decodeInnerClientHello on generated outer/encoded pairs with "
         "in-order, shuffled, rotated, repeated, missing-id, ECH-id lists, odd lengths, non-zero padding, truncations. "
         "Distinct by input bytes; non-trivial = a reordering call with >2 outer ids / an accepted or order-rejected decode / "
         "every end-to-end case.",
    trusted_base=["hooks/verif_c15.go (exported wrappers, no logic)",
                  "HPKE (internal/hpke), X25519, TLS 1.3 key schedule, the accept-confirmation HKDF: exercised end to end, "
                  "modelled only as Section variables (seal/open round trip, length +16)",
                  "clientHelloMsg.unmarshal per-extension body parsers (uninterpreted body_ok), hostnameInSNI, GetPaddingLen, "
                  "x509 verification (Section variables)",
                  "Go crypto/x509 with a throw-away CA; the runner's independent ClientHello reader"],
    assumes=["extension ids and length-prefixed bodies fit their prefixes (stated as premises / Err E_OVERFLOW in the model)",
             "the HRR cookie path is not modelled (the Go server never sends a cookie)",
             "fixes/C14-* (rejected branch verifies against the outer name) and fixes/C15-ech-hrr-keyshare are installed"],
    level_text="Proof (partial) over an executable model of the inner-hello codec, the uTLS outer-hello build, the HRR key-share "
               "update and the accept/reject outcome: round trip for all extension lists, order premise discharged for the list "
               "the code builds, outer SNI = public name, outer hello independent of the secret name up to the HPKE ciphertext, "
               "one share for the requested group after HRR in inner and outer, rejection yields ECHRejectionError with the retry "
               "configs. HPKE, the key schedule and X.509 are premises; they are exercised by the end-to-end grid.",
)

ENTRY = dict(
    runner="C33", pkg="./cmd/c33", corr=["Corr.C33Corr"], n=dict(quick=300, thorough=4000), runner_timeout=2400,
    rule="(a) parser level, recover() + 2 s guard around every call: 15 EncryptedExtensions / CompressedCertificate shapes under 9 "
         "byte-level mutations through encryptedExtensionsMsg.unmarshal, utlsCompressedCertificateMsg.unmarshal and "
         "Conn.unmarshalHandshakeMessage on a CLIENT connection (TLS 1.2 / 1.3), all 256 type bytes, and decompressCert's decisions "
         "before its buffer (3 advertised sets x 5 algorithms x 5 declared lengths x 2 payloads). (b) live, loopback TCP, every client "
         "Handshake and up to 64 following Reads under a connection deadline (1.2 s grid, 3 s otherwise, 0.4 s for silent servers) "
         "with recover(); hang = not returned 2 s after the deadline; runtime.MemStats.TotalAlloc delta per run, limit 12 MiB: "
         "all 38 predefined parrots + HelloGolang + 3 randomized + Chrome_120's spec advertising zstd/brotli/zlib against the scripted "
         "server, 10 draws per parrot from 6 scenarios (TLS 1.3, +HelloRetryRequest with cookie and group, +CompressedCertificate "
         "(payload compressed ahead of time), +ALPS, +CertificateRequest, TLS 1.2) x target message x 19 mutations (bit flips, random "
         "byte, header length up/down, u8/u16/u24 field edits, truncation with/without header fix, extension with/without fix, "
         "duplication, type swap, drop, reorder with the next message, 16 MiB declared, empty body, zero / ff fill) applied to the "
         "plaintext before transcript and encryption; post-handshake messages on TLS 1.3 AND TLS 1.2 (HelloRequest x1/x5/with body, "
         "NewSessionTicket incl. early_data, 60 KiB label and 300-ticket flood, KeyUpdate x1/x40, stray EncryptedExtensions / "
         "CompressedCertificate / ServerHelloDone / Finished; every client meets a plain TLS 1.2 HelloRequest) under the same mutations, "
         "the client writing before and after its Reads; the same messages (KeyUpdate(update_requested) for every client, HelloRequest, "
         "stray types) with the CLIENT's transport failing or blocking every write once the handshake is done, Read under the watchdog "
         "(hang/post-handshake/<version>/<msg>/client-write-fails|blocks/<parrot>); decompression bombs per algorithm (48-96 MiB of zeros in < 64 KiB, declared "
         "1000 and 262144) through decompressCert and live; ServerHello key_share of 0/1/31/32/33/size-1/size/size+1 bytes for every "
         "group the client sent a share for (hybrid groups all lengths, classical three per client); WELL-FORMED but degenerate "
         "Certificate messages (empty certificate_list, one empty entry, non-empty request context, extensions-only entry, valid+empty "
         "entries, 300 empty entries, garbage DER, short list length, no body) sent compressed with every algorithm the client "
         "advertises (exact declared length, clean stream end), uncompressed in place of the TLS 1.3 Certificate, and as TLS 1.2 "
         "Certificate messages; targeted: "
         "declared 16 MiB / max / max+1, zstd Window_Size 512 / 64 / 8 MiB, brotli WBITS 24 + 16 MiB meta-block, 256 KiB of zeros; "
         "HelloRetryRequest cookies of 1 / 32 / 4000 bytes against custom specs with 1..4 extensions (cookie position checked "
         "against the model), a 65000-byte cookie and a 60000-byte ALPS value against real parrots, resumption followed by a "
         "HelloRetryRequest; 14 kinds of raw record streams from a plain TCP server. Distinct by input bytes resp. (parrot, scenario, "
         "message, mutation); non-trivial when a parser accepted resp. always for live runs.",
    trusted_base=["/repo/verif_server.go (scripted server, MutateHandshakeMsg choke point) and harness/hs; hooks verif_c22.go, verif_c34.go "
                  "(VerifC34UnmarshalHandshakeMessage, VerifC34UnmarshalCompressedCert, VerifC34WriteHandshakeRecord), verif_c21.go "
                  "(VerifDecompressCert), verif_c12.go",
                  "runtime.MemStats.TotalAlloc (process-wide) around one connection, runner strictly serial, every compressed payload prepared "
                  "ahead of time (the in-process server never runs an encoder inside a measured window); a delta above the limit is "
                  "re-measured (up to 3 serial attempts, fresh script / session cache, pause + runtime.GC() in between) and the SMALLEST "
                  "delta is judged; 12 MiB = 8 MiB RFC 8878 decoder window + messages + slack",
                  "loopback TCP and the Go scheduler: a hang is 'client goroutine not returned 2 s after the connection deadline'",
                  "Model/RobustSrv.v cryptobyte / readHandshake model (shared with C34), Model/Alps.v (shared with C22)"],
    assumes=["upstream unmarshalers of the standard handshake messages are total boolean functions (Section variable std) and the handlers "
             "between read points are an arbitrary transition function (Section variable next)",
             "input bytes are byte-valued (bytes_ok); bytes.Buffer.Next, append and make within the proven sizes never panic",
             "the decompressors' internal allocations and running time are not modelled (observed: zstd capped by the fix, brotli = finding)"],
    level_text="Proof (partial): no panic and no non-termination of the uTLS-specific client paths on all inputs - message-type switch with "
               "types 8/25, encryptedExtensionsMsg.unmarshal, utlsCompressedCertificateMsg.unmarshal, utlsReadServerParameters, "
               "utlsReadServerCertificate / decompressCert up to the decompressor, the HelloRetryRequest cookie insertion for every "
               "extension list and random draw - and every buffer these paths allocate is <= maxHandshakeCertificateMsg + 4 on the capped "
               "code (uncapped code refuted: F-33). The upstream state machine, record layer, deadlines and decompressor internals are "
               "covered by mutation runs with recover() + deadline + allocation sampling on every check.",
)

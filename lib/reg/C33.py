ENTRY = dict(
    runner="C33", pkg="./cmd/c33", corr=["Corr.C33Corr"], n=dict(quick=300, thorough=4000), runner_timeout=2400,
    rule="placeholder",
    trusted_base=[], assumes=[], level_text="placeholder",
)

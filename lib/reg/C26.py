ENTRY = dict(
    runner="C26", pkg="./cmd/c26", corr=["Corr.C26Corr"], n=dict(quick=240, thorough=6000), race_suite="C26race", runner_timeout=3000,
    rule="one UConn (HelloGolang, Chrome_120, Firefox_120, Chrome_133) over loopback TCP against a crypto/tls server (normal, slow, "
         "aborting); 2..5 concurrent Handshake/HandshakeContext callers with random start delays, cancellation at a random point in "
         "0..3 ms or after return, optional reader, writer, Close/CloseWrite at a random point; every 7th run: Close while the single Write is "
         "parked in the transport (peer stopped reading, no write deadline); every 7th run: Read and Write started before any Handshake "
         "(implicit handshakes) against a server that waits for the client's request; every 7th run: HandshakeContext with a context that is "
         "already cancelled / expired / expiring within microseconds at call time, before or after the handshake completed; every 7th run: a "
         "single HandshakeContext caller whose ctx is cancelled right after the k-th transport write (k=1..3, incl. the last flight) or k-th "
         "read (k=1..5) through a conn wrapper, optionally waiting until the transport is closed; every 14th run: silent peer without I/O "
         "deadline, an owner with the background ctx blocked in I/O, 1..3 queued callers whose contexts are cancelled at various times (3 s "
         "watchdog); one of seven "
         "runs: TLS 1.2 server (the package's own, hook VerifSendHelloRequest) that sends a HelloRequest while a reader sits in Read and "
         "2..4 goroutines spin on Handshake/HandshakeContext/Write; 8 runs in parallel; the same workload "
         "again under the race detector. Distinct by (id, server, callers, cancellations, close kind, results); non-trivial with more than two callers.",
    trusted_base=["Go runtime mutexes, atomics, context and scheduler", "Go race detector (data-race freedom is observed, not proved)",
                  "crypto/tls server as the peer", "hooks/verif_c26.go VerifSendHelloRequest (server side writes a HelloRequest record)"],
    assumes=["every I/O inside the handshake body ends (I/O deadline or closed connection)",
             "handshakeErr is never reset; isHandshakeComplete is cleared only by handleRenegotiation, under handshakeMutex (modelled as ERenegStart)",
             "other goroutines act on the shared state only through the environment steps of Model/HsLock.v (shown for the modelled caller itself)"],
    level_text="Proof on the lock model (one caller against an environment of arbitrarily many others; all interleavings): every caller returns "
               "the shared outcome or its own ctx error (then the connection was closed), no deadlock, cancelling after return is a no-op, "
               "lock discipline for the shared handshake fields, the input lock is waited for only while no result exists (never behind a reader "
               "parked in Read); Write/Close interlock model (one writer, one closer, possibly stalled peer): no deadlock, bounded steps, Close "
               "takes c.out only with no Write in flight. Partial: data-race freedom of the real memory accesses is only observed (race detector).",
)

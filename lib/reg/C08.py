ENTRY = dict(
    runner="C08", pkg="./cmd/c08", corr=["Corr.C08Corr"], n=dict(quick=24, thorough=800),
    rule="one generator per built-in TLSExtension type (31; harness/extcoq) makes fresh random values within wire limits "
         "with the main list/byte-string field of length 0,1,2,3,255,256 (clamped to the type's limit) and n/8 random "
         "lengths in 0..40, GREASE values mixed in; each value is read into zeroed buffers of 0, Len-1, Len and Len+7 bytes "
         "(CRead), and the body of the exact-size read is handed to ExtensionFromID(id).Write (both PSK choices for id 41) "
         "whose object is measured and read again (CWrite). Added: six GREASE-ECH bodies with payloads of 0,1,15,16,17,144 "
         "bytes, n malformed bodies (random, shaped, truncated or extended by one byte) against every known, some GREASE "
         "and some unknown ids, and 18 values beyond the one-byte-prefix limits (error branches and the remaining ALPN narrowing; oracle: what Read accepts must have matching prefixes). "
         "Call orders: per type three more values, each built as identical fresh copies whose FIRST call differs (Read into "
         "Len-1 / 4 / Len bytes before any Len(), Read twice, Len twice, Write then Read without Len()), judged against "
         "the length the object reports afterwards. Edits: per type three objects are encoded once (Len+Read / Len / Read), ALL exported fields are overwritten by "
         "those of a second generated value (reflection), then Len/Read are judged again (keys <Type>/after-edit/<rule>; "
         "CReadObj cases carry the first encoding for the model of the QUIC marshal cache). Non-fresh Write: for every type with Write, a generated value already encoded once receives the body of a "
         "second generated value (sizes 0, 1-3, 12-31), and a fresh object is written long-then-short/empty and "
         "short-then-long; the object must then encode like a fresh object written with the last body (or, for the types "
         "whose body is documented as ignored, exactly as before); keys <Type>/write-non-fresh, also as Coq oracle cases "
         "(ext_write is a function of id and body only). A case is distinct by (type, size, index, buffer class) resp. (type, size, index, psk choice) or corpus index; a "
         "read is non-trivial when Len > 4 and the buffer is large enough, a write when the body is non-empty and Write "
         "accepted it.",
    trusted_base=["harness/extcoq (reflection-based renderer of Go extension values as Coq terms; copy of hostnameInSNI)"],
    assumes=["Read is called on a zero-initialised buffer (as MarshalClientHello's bufio does)"],
    level_text="Proof over the executable model of all 31 extension types' Len/Read/Write; the model is tied to the code by "
               "replaying generated values, buffer sizes and written bodies on every check, with a Go-side oracle written "
               "from the property text (Len vs Read, short buffer, header and inner length prefixes, write round trip "
               "modulo the documented normalisations).",
)

ENTRY = dict(
    runner="C16", pkg="./cmd/c16", corr=["Corr.C16Corr"], n=dict(quick=150, thorough=1500),
    rule="every parrot whose spec carries a GREASEEncryptedClientHelloExtension (found by inspecting UTLSIdToSpec: Chrome_120, "
         "Chrome_120_PQ, Chrome_131, Chrome_133, Firefox_120; two parrots without it as controls) x n connections to a plain Go "
         "server and n to one whose CurvePreferences = [P-384] forces a HelloRetryRequest (quick: 150+150 = 300 per parrot), loopback "
         "TCP, client writes recorded, first and second ClientHello parsed back. Go-side oracle on every connection (well-formed outer "
         "ECH, candidate suite, 32-byte enc, candidate length + 16, identical bytes after HRR, no repeat of enc/payload across "
         "connections); the proven Coq oracle predicate on every 50th and the model (draws read back from the wire; three Reads) on "
         "every 25th connection (Coq elaborates 250-byte literals slowly). Plus 8 custom specs (a parrot spec whose GREASE ECH candidate lists are replaced: three pairs with distinct KDFs and AEADs on Chrome_133 and Firefox_120, a single pair, empty lists = default pair/128, a config-id list, three seeded random non-mix-closed pair lists with 1..4 payload lengths), n/5 plain + n/15 HRR connections each, Coq oracle every 10th and model every 3rd. Distinct by (client, server kind, connection); non-trivial = oracle cases and HRR model cases.",
    trusted_base=["ClientHello / record parser of the runner", "crypto/rand and hpke.SetupSender (their outputs are the model's inputs)",
                  "Go server side of utls as test equipment (HelloRetryRequest)"],
    assumes=["candidate AEAD ids are HPKE AEADs 1..3 and candidate payload lengths + 16 fit a u16 (true for every parrot; an unknown "
             "AEAD id panics in cipherLen and a length above 65519 wraps the length prefix: Examples C16_ex_bad_aead / C16_ex_len_overflow)",
             "hpke.SetupSender returns a 32-byte encapsulated key (X25519) and crypto/rand fills its buffer",
             "freshness across connections rests on each UClient building a new spec object (observed: no repeats)"],
    level_text="Proof of well-formedness, stability under repeated Len/Read (HRR resend) and dependence on the draws of the single "
               "initialisation only, for the model of init/Len/Read with randomness as input; correspondence and property oracle on the wire.",
)

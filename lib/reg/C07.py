ENTRY = dict(
    gen=["dicttls"],
    runner="C07", pkg="./cmd/c07", corr=["Corr.C07Corr"], n=dict(quick=48, thorough=1500),
    rule="raw: n generated ClientHello records (0-5 extensions drawn from the generators of every built-in extension type, unknown ids, "
         "GREASE) under 2 of the 8 Fingerprinter flag sets, 2 field-wise mutations each (truncation anywhere / at a structural boundary, a "
         "length field +-1 or random, bit flip, trailing bytes, record/handshake type byte), n/2 random byte strings (half behind a valid "
         "record+handshake header), a fixed corpus, and every parrot's hello (all as Coq cases at the thorough tier, those <= 260 bytes at "
         "quick) plus 12 truncations/bit flips per parrot under the Go-side oracle; import: n tlsfingerprint.io maps (every 5th valid, "
         "the others with a missing / empty / odd-length / random / shortened entry, key_share of 1..9 bytes with 0, 1 or 5 bytes of spare "
         "capacity) and the F-07a corpus, every 4th also through ImportTLSClientHelloFromJSON; json: n documents in the fixture format "
         "(30 extension shapes, names from the live dicttls tables; every 4th valid, the others with a member missing, null, ill-typed, "
         "repeated, case-folded, an odd list element, or an ill-typed extension) and the F-07b corpus (null, {}, each member missing, "
         "non-objects), malformed text under the Go oracle; write: ExtensionFromID(id).Write on 4+n/8 random/shaped bodies, every length 0..5 and "
         "every proper prefix of valid bodies for 32 ids. ident-sweep: valid bodies of EVERY built-in extension type (2 per type, from its own "
         "Read) with each 16-bit and each 8-bit position (first 40 bytes) set in turn to 0,1,2,3,4,0x1d,0x0a0a,0x0100,0x7fff,0xfffe,0xffff resp. "
         "0,1,2,3,64,254,255 -> Write directly and FingerprintClientHello inside a well-framed hello (Go oracle; ~10^4 inputs), plus the "
         "`ident-sweep`, `shrink-ext-body` and `reorder-or-repeat` hello mutations as Coq cases. flag matrix: a valid TLS 1.3 hello with/without "
         "padding x with/without a non-empty pre_shared_key under all 8 Fingerprinter flag sets (32 Coq cases + usability oracle), and every PSK "
         "parrot as a resuming hello (filled FakePreSharedKeyExtension), with and without its padding extension, under all 8 flag sets (Go "
         "oracle). version sweep: record-layer version x legacy_version over {0x0300,0x0301,0x0302,0x0303,0x0304,0x0200,0xfefd} in all orders, with and "
         "without supported_versions (98 hellos -> fingerprint -> usability oracle; the 50 in the TLS range also as Coq cases) and "
         "UConn.SetTLSVers(min,max,exts) directly for every pair incl. 0 (CSetVers). list shapes: each list-valued extension of a valid TLS 1.3 hello (key_share, groups, versions, signature algorithms, compression algorithms, "
         "PSK modes, ALPN) with every sequence of 0..2 (and three of 3) entries over {GREASE, two real, one unregistered value} -> fingerprint -> "
         "usability oracle (168 hellos, a third as Coq cases). The usability oracle (ApplyPreset + BuildHandshakeState under recover) applies to every accepted input without a repeated "
         "extension type and with pre_shared_key last. "
         "Distinct by (generator index, mutation index, flags); non-trivial: accepted with at least one extension, or refused after the "
         "fixed header, or any panic.",
    trusted_base=["harness/extcoq (reflection-based renderer of Go extension values as Coq terms)",
                  "harness/cmd/c07 generators and the two renderers of a JSON value (JSON text / jval term, incl. base64.StdEncoding for strings)",
                  "encoding/json (object member -> struct field matching, number parsing, base64 for []byte): modelled, not verified",
                  "Gen/Dict.v snapshot of the dicttls name tables (kept current by C32's translator)"],
    assumes=["the decoded key_share slice satisfies len <= cap (Go slice invariant); its capacity is an input of the model",
             "JSON documents repeating a member name INSIDE an extension object, and member names with non-ASCII letters that Unicode-fold "
             "to ASCII, are outside the correspondence (the no-panic theorem still covers the model's reading of them)",
             "ApplyPreset is abstracted as any update of the extension list that keeps each object's Go type; that it (and the rest of "
             "BuildHandshakeState outside MarshalClientHello) does not panic is observed by the runner, not proved",
             "a padding length >= 2^63 in a JSON document becomes a negative int in Go and is not expressible in the model's EPadding"],
    level_text="Proof over executable models of FromRaw/ReadTLSExtensions/AlwaysAddPadding/FingerprintClientHello, ImportTLSClientHello and the "
               "JSON unmarshalers (all 29 extension UnmarshalJSON methods) with Go slice/index/nil-receiver semantics: no input makes them "
               "panic, and every accepted raw hello yields extensions that MarshalClientHello (Model/Marshal.v) serialises without a panic "
               "after any type-preserving update. The models are tied to the code by replaying generated inputs and comparing outcome class "
               "and the returned spec on every check; any Go panic is reported directly by the Go-side oracle.",
)

ENTRY = dict(
    runner="C03", pkg="./cmd/c03", corr=["Corr.C03Corr"], gen=["parrots"], n=dict(quick=6, thorough=200),
    rule="Gen/Parrots.v is regenerated before the proof build: go/parser lists every Hello* ClientHelloID of u_common.go (aliases, "
         "ids UTLSIdToSpec refuses and the helloRandomized* ids are listed as such), UTLSIdToSpec is called 16 times per id and the "
         "spec is rendered field by field (extensions through harness/extcoq); calls of one id must be rearrangements of each other "
         "with GREASE/padding/pre_shared_key in place, else the translator fails the check. Runner: n connections per parrot (server "
         "names: short/long DNS names, trailing dots, IPv4/IPv6 literals = no SNI; deterministic recording Config.Rand; dummy net.Conn, "
         "BuildHandshakeState only): two of three through UClient(id) - Hello.Raw goes to the Coq oracle ast_matches_specb against the "
         "regenerated table (CHello) - one of three through UTLSIdToSpec+ApplyPreset on HelloCustom, where the model build (ApplyPreset + "
         "marshal over the extension codecs) must return Hello.Raw byte for byte given the GREASE seed read from Config.Rand and the "
         "random, session id, key shares and ECH draws cut out of the output (CBuild; PSK parrots also with OmitEmptyPsk=false). Plus "
         "further UTLSIdToSpec draws against the table (CDraw) and the real ShuffleChromeTLSExtensions on generated lists of 0..24 "
         "extensions with crypto/rand.Reader replaced by a logging reader, the swap calls recomputed with the same math/rand (CShuffle). "
         "Go-side oracle from the property text and the Go TYPES of the spec's extensions: legacy_version, suites modulo GREASE, "
         "compression, extension type sequence / multiset + fixed slots, shuffle permutation + fixed slots. The tls.Config handed to "
         "UClient is varied (rotation per connection: defaults / MinVersion,MaxVersion drawn from {unset,1.0,1.1,1.2,1.3} independently - "
         "narrower, wider, inverted - NextProtos, CipherSuites, CurvePreferences, SessionTicketsDisabled, Renegotiation set / ONE *Config "
         "object reused across all parrots as the previous connection left it); these fields are part of the model's cfg and neither the "
         "model nor the oracle reads them (C03_config_independent), so any dependence of the wire on them is a failure. Server names "
         "include the lengths 250..257, 300 where the nested SNI length fields cross a byte boundary. Entropy faults: crypto/rand.Reader "
         "(deterministic stream derived from the seed for the whole run) is replaced by a reader failing from read k on while UTLSIdToSpec "
         "generates the spec (every shuffling parrot, a quarter of the others; then ApplyPreset on a healthy source: CDraw + CBuild + CHello "
         "oracle cases) and by a reader failing once at the first read of a whole UClient(id) connection (all parrots except non-shuffling "
         "ones with GREASE ECH, whose first crypto/rand use is rand.Read, fatal by design in Go 1.24); the outcome must be an error or a "
         "hello/spec that still matches. A quarter of the generated ShuffleChromeTLSExtensions runs have crypto/rand failing: their result "
         "is checked against the postcondition proved for every swap list (CShufflePost, oracle case). Distinct by "
         "(parrot, server name, path); every hello is non-trivial, a shuffle when it moved something.",
    trusted_base=["translator harness/cmd/c03/gen.go (go/parser enumeration, rendering of spec fields) and harness/extcoq (ExtTerm, copy of hostnameInSNI)",
                  "the runner's ClientHello framing parser (harness/cmd/c03/wire.go) and its recovery of per-connection material from the output",
                  "Model/Marshal.v as the model of MarshalClientHelloNoECH + bufio (C05), Model/Ext.v as the model of the extension codecs (C08), "
                  "Model/Grease.v (C04): tied by their own checks and by the byte-for-byte CBuild cases here"],
    assumes=["no session is offered (Config.ClientSessionCache nil, no SetSessionState): the pre_shared_key / session_ticket extensions stay as the spec has them",
             "Config.EncryptedClientHelloConfigList is nil (real ECH rewrites the outer hello: C15)",
             "c_sni is hostnameInSNI(Config.ServerName) (computed by the verbatim copy in harness/extcoq)",
             "key generation, ECH init() draws and the Chrome shuffle order are inputs of the model (fresh record / swap list); theorems quantify over them"],
    level_text="Proof over ALL specs (not only the shipped ones) that ApplyPreset's result, encoded by the extension codecs, matches the spec in the "
               "sense of the property oracle (header fields, GREASE slots, extension sequence with the per-connection holes), and over ALL swap "
               "lists that the Chrome shuffle is a permutation leaving GREASE/padding/pre_shared_key in place; the regenerated 38-entry table is "
               "shown well-formed by computation so the generic theorem applies to every shipped parrot. The composition with the byte-level "
               "marshaller/strict parser and the shuffle-aware rearrangement of the oracle are tied by correspondence (byte-for-byte CBuild, "
               "oracle CHello on every connection) - see notes/C03.md for which part is proof and which is observed.",
)

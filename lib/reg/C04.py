ENTRY = dict(
    runner="C04", pkg="./cmd/c04", corr=["Corr.C04Corr"], n=dict(quick=200, thorough=2000),
    rule="GetBoringGREASEValue on all 2^16 seed words at each of the 5 indices (plus out-of-range indices); isGREASEUint16 observed "
         "through ApplyPreset on all 2^16 cipher-suite values; 50*n draws each of GetGREASEVersion / GetGREASEID with crypto/rand.Reader "
         "replaced by a logging deterministic reader (the crypto/rand.Int result is recomputed from the consumed bytes and given to the "
         "model) plus a scripted corpus (draw 1 = the F-04 witness, 0, 0x05050505, max-1, entropy failure); n/4 marshaled transport-parameter "
         "lists with a GREASE parameter (override valid/invalid/unset) and a VersionInformation with 0..4 random available versions; IsGREASEID, ID() and Marshal with IdOverride on boundary ids (0..96, +-70 around 2^14, 2^30, 2^32, 2^62, 2^63, 2^64); every "
         "listed parrot: n connections through the ClientHelloID path with a recording Config.Rand (the unique 10-byte read = GREASE seed), "
         "max(2,n/66) through UTLSIdToSpec+ApplyPreset and as many through a Fingerprinter copy of its wire hello (GREASE view of spec and of the parsed "
         "wire hello compared with the model position by position); n/2 randomized ClientHelloIDs; 4*max(2,n/66)+n/4 runner-generated specs with "
         "GREASE (placeholder or user-set reserved value) at random positions of suites/groups/key_share/versions/sigalgs and 0..3 GREASE "
         "extensions; freshness: distinct values per slot over n connections per GREASE-carrying parrot, 3 fingerprinted copies and one "
         "fixed generated shape. Distinct by (hello, seed bytes, spec); non-trivial when the hello carries at least one GREASE value / the draw succeeded.",
    trusted_base=["crypto/rand.Int of the Go standard library (used to recompute the draw from the logged entropy)",
                  "the runner's ClientHello / transport-parameter parsers (harness/cmd/c04/hello.go, gens.go)"],
    assumes=["the 10 bytes ApplyPreset reads for greaseSeed are the only 10-byte read from Config.Rand during ApplyPreset (the runner aborts otherwise)",
             "freshness is proved as reachability + uniformity of the seed-byte -> value map; that values actually vary is observed (entropy source is an input)"],
    level_text="Proof for all seeds: reserved form of every GetBoringGREASEValue result, exact characterisation of isGREASEUint16 on all 2^16 values, "
               "the two extension code points differ after the ^0x1010 fix-up (256-value sweep lifted by the low-byte dependence lemma), GREASE groups "
               "in key_share and supported_groups coincide and GREASE positions stay reserved in every ApplyPreset result (induction over the extension "
               "list), reachability/uniformity of all 16 values per slot, QUIC ids 31N+27 < 2^62 for all admissible multipliers, QUIC GREASE versions "
               "0x?a?a?a?a for every draw (model of the FIXED GetGREASEVersion; the shipped expression is refuted by draw 1). Variation across "
               "connections is observed (>= n connections per slot), not proved.",
)

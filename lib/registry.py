"""Per-property registry for bin/check."""
REG = {}

REG["C24"] = dict(
    level_text='Proof for every uint64 value and every parameter list: Append/Len/AppendWithLen/Read mirror internal/quicvarint with explicit shifts and narrowing, with and without a non-empty destination buffer; round trip, minimality, exact width and refusal by panic above 2^62 are theorems by case analysis on the width (no enumeration); TransportParameters.Marshal parses back entry by entry for any list. Tied to the code by byte-exact correspondence on boundary and random values on every run.',
    runner="C24", corr=["Corr.C24Corr"], n=dict(quick=300, thorough=6000),
    rule="boundary values (0,63,64,16383,16384,2^30+-1,2^62+-1,2^64-1) plus random values of random bit width; "
         "AppendWithLen over widths {1,2,4,8} and one invalid width; Append and AppendWithLen both onto nil and onto buffers "
         "that already hold 1..6 bytes (with and without spare capacity; caller's bytes must survive, in the result and in "
         "place); Read on random/truncated byte strings; random parameter lists over all 17 parameter types with repeated "
         "parameters/ids. A case is distinct by (op,input); non-trivial when it reaches a "
         "multi-byte encoding / non-panicking AppendWithLen / successful Read / non-empty non-panicking Marshal.",
    trusted_base=["verif_export.go accessors for internal/quicvarint"],
    assumes=["uint64 inputs modelled as N below 2^64; len(Value()) < 2^62"],
)

REG["C36"] = dict(
    level_text="Proof by refinement: the concrete cache (recency list + index, slot reuse on eviction) mirrors lruSessionCache.Put/Get; an invariant (size <= capacity, unique keys, index agrees with list) holds for every history by induction and every output equals the abstract bounded LRU map's. Partial: that each operation holds the mutex for its whole body (so concurrent histories linearize) is observed by porcupine-checked concurrent runs under the race detector, not proved.",
    runner="C36", corr=["Corr.C36Corr"], n=dict(quick=400, thorough=8000), race_suite="C36race",
    rule="random Put/Get/Put-nil histories (2..31 ops) over 2..7 keys and capacities 1..5 (and <1 = default 64), a fixed "
         "corpus first; plus 4-goroutine concurrent histories checked for linearizability (porcupine) against a reference "
         "LRU map. Distinct by (capacity, history); non-trivial when the history has at least 4 operations.",
    trusted_base=["porcupine v1.3.0 linearizability checker (concurrent part only, observational)"],
    assumes=["each Put/Get holds the cache mutex for its whole body (observed by the concurrent runs, not proved); "
             "session keys and states modelled as opaque identities"],
)

REG["C30"] = dict(
    runner="C30", corr=["Corr.C30Corr"], n=dict(quick=400, thorough=10000), race_suite="C30race",
    rule="random 32-byte seeds; SHAKE256 stream computed independently (x/crypto/sha3) and handed to the model; calls "
         "Intn/Int63n/Range/FlipWeightedCoin/Perm with boundary arguments (0,1,2^31-1,2^31,2^62,2^63-1,negative, +-0.0,1.0, "
         "nextafter values, NaN, +-Inf) and random ones, starting 0..3 words into the stream; each case also pins the next "
         "8 stream bytes. Salted PRNGs: per seed a family of ~15-25 salts of 0..1000 arbitrary bytes that are pairwise close "
         "(one byte changed at the end/front/middle, one byte more or less, trailing zero bytes, common prefixes of 31/32/33/64/len "
         "bytes with different tails, the salt doubled, \"ALPS\", empty): equal salts <-> equal first 32 stream bytes, all different "
         "from the unsalted stream (Go-side oracle on every pair, Coq-side oracle on a sample of short pairs). "
         "Seed-by-value: every entry point taking a *PRNGSeed is called through ONE seed variable whose contents are overwritten "
         "between calls (2..4 seed values, 2..4 salts and unsalted, same salt again / another salt, 8..17 interleaved calls per round), "
         "compared with the same (value, salt) through a variable of its own that is never written again; some PRNGs are drawn from "
         "only after their seed variable has been scribbled over; the call must not change the caller's seed. "
         "Distinct by (call,args,seed); non-trivial when n>1 / max>lo / 0<w<1 / perm n>2.",
    trusted_base=["verif_export.go VerifPRNG wrapper", "x/crypto/sha3 SHAKE256 (stream recomputation)",
                  "IEEE-754 float64 laws as Section hypotheses (monotone rounding; 0,1,2^63,2^-63 representable); executable rne validated against Go"],
    assumes=["streams long enough that rejection loops end within the fuel (64 redraws)",
             "float64 subtraction/division/conversion behave as round-to-nearest-even"],
    level_text="Proof for every stream (hence every seed) of the range statements for Intn/Int63n/Range incl. 64-bit wrap-around; "
               "FlipWeightedCoin proved for any rounding function obeying the IEEE-754 laws stated as premises (partial: the float "
               "unit itself is modelled); determinism/salt-sensitivity/concurrency observed by the runner (race detector).",
)

REG["C29"] = dict(
    level_text='Proof over a pure model of Roller.Dial (configured ids, an arbitrary permutation standing for the shuffle, remembered id, per-attempt TCP outcome, generated seeds, handshake timeout, starting time and the peer serving / refusing after any delay or staying silent towards each fingerprint): remembered id first, each id at most once, every attempt judged against its own full timeout, first attempt whose handshake succeeds returned and the CONNECTION\'s id (seed included) recorded so that the next Dial starts with the very fingerprint that worked, TCP error returned at once - for all inputs. Partial: the shuffle, UClient/SetSNI/seed generation and data-race freedom are observed (loopback servers recognising fingerprints, race detector), not proved.',
    runner="C29", corr=["Corr.C29Corr"], n=dict(quick=480, thorough=4000), race_suite="C29race",
    rule="local TLS servers over loopback TCP that, per fingerprint recognised from the parsed ClientHello, complete the handshake, "
         "close, or (every 5th scenario, 400 ms handshake timeout) read the hello and stay silent; Rollers over 2..5 of ~30 ids: "
         "14 fixed parrots, randomized ids with a pinned seed, and UNSEEDED randomized ids (the three shipped ones and five with "
         "weights forcing extensions in/out, so that the family of a never-seen fingerprint is read off the wire and it is numbered "
         "on the fly); optional remembered working id (possibly unconfigured, possibly black-holed), 3..5 Dials per scenario with "
         "the server changing its mind, listeners that stop accepting after k connections, a closed port. Distinct by (ids, working, "
         "observed trace with per-attempt server outcome); non-trivial when at least two fingerprints were tried in the Dial.",
    trusted_base=["ClientHello fingerprint recogniser in the runner (suites in order + extension types modulo GREASE; family of an "
                  "unseeded randomized hello from extensions forced by client name / weights 0 and 1)",
                  "Go crypto/x509 with SSL_CERT_FILE pointing at a throw-away CA"],
    assumes=["configured HelloIDs are pairwise distinct (NoDup premise)", "the shuffle yields some permutation (premise; observed)",
             "generated seeds do not collide with configured ones (premise of C29_trace_ok only)",
             "a ClientHelloID that carries its Seed shows the same fingerprint on every connection (observed: the server recognises it)"],
)

# Properties added later live in lib/reg/Cxx.py, one file each, defining ENTRY = dict(...).
import glob as _glob, importlib.util as _ilu, os as _os
for _f in sorted(_glob.glob(_os.path.join(_os.path.dirname(_os.path.abspath(__file__)), "reg", "C*.py"))):
    _spec = _ilu.spec_from_file_location("reg_" + _os.path.basename(_f)[:-3], _f)
    _m = _ilu.module_from_spec(_spec); _spec.loader.exec_module(_m)
    REG[_os.path.basename(_f)[:-3]] = _m.ENTRY

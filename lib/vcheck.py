"""Generic check driver: proof build + correspondence + oracle + verdict.
Used by bin/check; all per-property data lives in lib/registry.py."""
import fcntl, glob, hashlib, json, os, re, shutil, subprocess, sys, time
from concurrent.futures import ThreadPoolExecutor

VERIF = os.path.dirname(os.path.dirname(os.path.abspath(__file__)))
COQ = os.path.join(VERIF, "coq")
BUILD = os.path.join(VERIF, "_build")
HARNESS = os.path.join(VERIF, "harness")
REPO = os.environ.get("VERIF_REPO") or "/repo"
DEV = REPO != "/repo"       # development mode: checks run against a scratch worktree; evidence/replays go under _build/dev
OUTROOT = os.path.join(BUILD, "dev", os.path.basename(REPO.rstrip("/"))) if DEV else VERIF
GOENV = dict(os.environ, GOFLAGS="-mod=mod", GOPROXY="off")
GOENV.pop("GOSUMDB", None); GOENV.pop("GOTOOLCHAIN", None)
COQARGS = ["-Q", os.path.join(COQ, "theories"), "UV", "-w", "-notation-overridden,-deprecated"]

def sh(cmd, cwd=None, env=None, timeout=3600, inp=None):
    p = subprocess.run(cmd, cwd=cwd, env=env, timeout=timeout, input=inp,
                       stdout=subprocess.PIPE, stderr=subprocess.STDOUT, text=True)
    return p.returncode, p.stdout

class Lock:
    def __init__(self, name):
        os.makedirs(BUILD, exist_ok=True)
        self.f = open(os.path.join(BUILD, name + ".lock"), "w")
    def __enter__(self):
        fcntl.flock(self.f, fcntl.LOCK_EX); return self
    def __exit__(self, *a):
        fcntl.flock(self.f, fcntl.LOCK_UN); self.f.close()

def gen_coqproject():
    """_CoqProject lists every .v under theories/ (dependency order is coqdep's business)."""
    files = sorted(os.path.relpath(f, COQ) for f in glob.glob(os.path.join(COQ, "theories", "**", "*.v"), recursive=True))
    txt = "-Q theories UV\n-arg -w -arg -notation-overridden,-deprecated\n" + "\n".join(files) + "\n"
    cp = os.path.join(COQ, "_CoqProject")
    if not os.path.exists(cp) or open(cp).read() != txt:
        with open(cp, "w") as f: f.write(txt)

def ensure_makefile():
    gen_coqproject()
    mf = os.path.join(COQ, "Makefile")
    cp = os.path.join(COQ, "_CoqProject")
    if not os.path.exists(mf) or os.path.getmtime(mf) < os.path.getmtime(cp):
        sh(["coq_makefile", "-f", "_CoqProject", "-o", "Makefile"], cwd=COQ)

def coq_build(targets, force=(), timeout=2400):
    """make the .vo targets (and their closure). `force` files are recompiled
    unconditionally so their output (Print Assumptions) comes from this run."""
    with Lock("coq"):
        ensure_makefile()
        for f in force:
            for ext in (".vo", ".glob", ".vos", ".vok"):
                try: os.remove(os.path.join(COQ, f[:-2] + ext))
                except FileNotFoundError: pass
        t0 = time.time()
        rc, out = sh(["make", "-j16"] + list(targets), cwd=COQ, timeout=timeout)
        return rc, out, time.time() - t0

def scan_forbidden(files):
    pat = re.compile(r"\b(Admitted|admit|Axiom|Axioms|Parameter|Parameters|Conjecture|Hypothesis|Variable)\b|Unset Guard|bypass_check|Admit Obligations|type-in-type|impredicative-set")
    hits = []
    for f in files:
        txt = open(f).read()
        # strip comments (non-nested is enough for our files) and Section-local Variables/Hypotheses
        txt2 = re.sub(r"\(\*.*?\*\)", "", txt, flags=re.S)
        insec = 0
        for i, line in enumerate(txt2.split("\n"), 1):
            if re.match(r"\s*Section\b", line): insec += 1
            if re.match(r"\s*End\b", line) and insec: insec -= 1
            m = pat.search(line)
            if m:
                if m.group(1) in ("Hypothesis", "Variable") and insec: continue
                hits.append("%s:%d:%s" % (os.path.relpath(f, VERIF), i, line.strip()[:80]))
    return hits

def coq_closure(vfile):
    """transitive .v dependencies of a theories-relative file, via coqdep"""
    seen, todo = set(), [vfile]
    while todo:
        f = todo.pop()
        if f in seen: continue
        seen.add(f)
        txt = open(os.path.join(COQ, f)).read()
        for m in re.finditer(r"From UV Require (?:Import|Export) ([^.]*(?:\.[A-Za-z_][\w]*)*)\.", txt):
            for mod in m.group(1).split():
                p = "theories/" + mod.replace(".", "/") + ".v"
                if os.path.exists(os.path.join(COQ, p)): todo.append(p)
    return sorted(seen)

def count_obligations(propfile):
    txt = open(os.path.join(COQ, propfile)).read()
    txt = re.sub(r"\(\*.*?\*\)", "", txt, flags=re.S)
    names = re.findall(r"^\s*(?:Theorem|Lemma|Example|Corollary)\s+(\w+)", txt, flags=re.M)
    return names

def build_runner(tag, race=False, pkg="./cmd/runner"):
    os.makedirs(BUILD, exist_ok=True)
    out = os.path.join(BUILD, "runner." + tag + (".dev-" + os.path.basename(REPO.rstrip("/")) if DEV else ""))
    cmd = ["go", "build", "-tags", "verif"] + (["-race"] if race else [])
    if DEV:
        # alternate go.mod whose replace directive points at the scratch worktree
        mod = open(os.path.join(HARNESS, "go.mod")).read().replace("=> /repo", "=> " + REPO)
        alt = os.path.join(BUILD, "go.dev-%s.mod" % os.path.basename(REPO.rstrip("/")))
        with open(alt, "w") as f: f.write(mod)
        shutil.copy(os.path.join(REPO, "go.sum"), alt[:-4] + ".sum")
        cmd += ["-modfile", alt]
        with Lock("go"):
            rc, log = sh(cmd + ["-o", out, pkg], cwd=HARNESS, env=GOENV, timeout=1800)
    else:
        with Lock("go"):
            shutil.copy(os.path.join(REPO, "go.sum"), os.path.join(HARNESS, "go.sum"))
            rc, log = sh(cmd + ["-o", out, pkg], cwd=HARNESS, env=GOENV, timeout=1800)
    return rc, log, out

def run_race_suite(pid, P, tier, seed):
    """build the runner with the race detector and run the property's race suite;
    returns (failures, info). A DATA RACE report is itself a failing schedule."""
    rc, log, runner = build_runner(pid + ".race", race=True, pkg=P.get("pkg", "./cmd/runner"))
    if rc != 0:
        return [], {"error": "race build failed: " + log[-800:]}
    rdir = os.path.join(BUILD, pid + ".race" + (".dev-" + os.path.basename(REPO.rstrip("/")) if DEV else ""))
    shutil.rmtree(rdir, ignore_errors=True)
    env = dict(GOENV, GORACE="halt_on_error=0")
    rcr, out = sh([runner, P["race_suite"], "-seed", str(seed), "-n", str(P["n"][tier]), "-tier", tier, "-out", rdir],
                  cwd=VERIF, env=env, timeout=P.get("runner_timeout", 3000))
    fails = []
    nrace = out.count("WARNING: DATA RACE")
    if nrace:
        i = out.index("WARNING: DATA RACE")
        fails.append({"key": "data-race", "what": "the race detector reported %d data race(s)" % nrace,
                      "input": {"suite": P["race_suite"], "seed": seed}, "got": out[i:i + 1800], "want": "no data race"})
    st = {}
    try:
        st = json.load(open(os.path.join(rdir, "stats.json")))
        fails += st.get("failures") or []
    except Exception:
        if not nrace: fails.append({"key": "race-runner", "what": "race suite did not finish: " + out[-600:], "input": None, "got": None, "want": None})
    shutil.rmtree(rdir, ignore_errors=True)
    try: os.remove(runner)
    except Exception: pass
    return fails, {"race_suite": P["race_suite"], "races_reported": nrace, "race_cases": st.get("evaluations", 0), "race_distribution": st.get("distribution", {})}

def run_cases(casedir, timeout=1800):
    """evaluate every cases_*.v shard with coqc; return list of bad indices or error text"""
    shards = sorted(glob.glob(os.path.join(casedir, "cases_*.v")))
    def one(f):
        rc, out = sh(["coqc"] + COQARGS + [f], cwd=casedir, timeout=timeout)
        m = re.search(r"bad\s*=\s*(\[.*?\])\s*:\s*list N", out, flags=re.S)
        if rc != 0 or not m:
            return ("error", f, out[-2000:])
        body = m.group(1).strip()[1:-1].strip()
        idx = [int(x) for x in re.split(r"[;\s]+", body) if x] if body else []
        return ("ok", f, idx)
    with ThreadPoolExecutor(max_workers=12) as ex:
        res = list(ex.map(one, shards))
    for f in shards:
        for ext in (".vo", ".glob", ".vos", ".vok"):
            try: os.remove(f[:-2] + ext)
            except FileNotFoundError: pass
        try: os.remove(os.path.join(os.path.dirname(f), "." + os.path.basename(f)[:-2] + ".aux"))
        except FileNotFoundError: pass
    return res

def load_known():
    kf, fixed = [], []
    p = os.path.join(VERIF, "KNOWN_FINDINGS.txt")
    if os.path.exists(p):
        for line in open(p):
            line = line.strip()
            m = re.match(r"finding:\s+property=(\S+)\s+key=(\S+)\s+(.*)", line)
            if m: kf.append((m.group(1), m.group(2), m.group(3)))
            m = re.match(r"fixed:\s+property=(\S+)\s+(\S+)\s+(.*)", line)
            if m: fixed.append((m.group(1), m.group(2), m.group(3)))
    return kf, fixed

def key_matches(pat, key):
    if pat.endswith("*"): return key.startswith(pat[:-1])
    return pat == key

def write_json(path, obj):
    os.makedirs(os.path.dirname(path), exist_ok=True)
    tmp = path + ".tmp"
    with open(tmp, "w") as f: json.dump(obj, f, indent=1, default=str)
    os.replace(tmp, path)

def run_check(pid, reg, tier, seed, replay=None):
    t0 = time.time()
    P = reg[pid]
    if replay:
        try:
            rj = json.load(open(replay))
            seed = int(rj.get("seed", seed)); tier = rj.get("tier", tier)
        except Exception as e:
            print("cannot read replay file %s: %s" % (replay, e)); return 2
    propfile = "theories/Props/%s.v" % pid
    corrfiles = ["theories/" + c.replace(".", "/") + ".v" for c in P.get("corr", [])]
    evid = {"property_id": pid, "tier": tier, "seed": seed, "level": "proof", "coverage": {}, "assumptions": [], "wall_s": 0, "violations": 0}
    problems = []      # (kind, text) things that no longer check
    violations = []    # concrete failing inputs (dicts)
    known_seen = []

    # 0. regenerate data tables from /repo when the property uses them
    gen_changed = []
    if P.get("gen"):
        from gen import regenerate
        ok, gen_changed, glog = regenerate(P.get("gen"))
        if not ok: problems.append(("translator", glog[-1500:]))

    # 1. proof build
    names = count_obligations(propfile)
    targets = [propfile[:-2] + ".vo"] + [c[:-2] + ".vo" for c in corrfiles]
    rc, out, bt = coq_build(targets, force=[propfile])
    closure = coq_closure(propfile)
    forb = scan_forbidden([os.path.join(COQ, f) for f in closure])
    assum = re.findall(r"^(Closed under the global context|Axioms:.*?(?=\n\S|\Z))", out, flags=re.M | re.S)
    axioms = sorted(set(re.findall(r"^([A-Za-z_][\w.]*)\s*:", "\n".join(a for a in assum if a.startswith("Axioms")), flags=re.M)))
    discharged = len(names)
    if rc != 0:
        m = re.search(r'File "([^"]+)", line (\d+)', out)
        where = "%s:%s" % (m.group(1), m.group(2)) if m else "?"
        discharged = 0
        if m and m.group(1).endswith(propfile.split("/")[-1]):
            # theorems whose statement starts before the failing line were accepted
            lines = open(os.path.join(COQ, propfile)).read().split("\n")
            upto = "\n".join(lines[:int(m.group(2)) - 1])
            discharged = max(0, len(re.findall(r"^\s*(?:Qed|Defined)\.", upto, flags=re.M)))
        problems.append(("proof", "Coq build failed at %s: %s" % (where, out[-1200:])))
    if forb:
        problems.append(("proof", "forbidden constructs in the proof closure: " + "; ".join(forb[:5])))
    allowed = set(P.get("allowed_axioms", []))
    extra_ax = [a for a in axioms if a not in allowed]
    if extra_ax:
        problems.append(("proof", "unexpected axioms reported by Print Assumptions: " + ", ".join(extra_ax)))

    # 1b. thorough tier: independent re-check of the compiled closure with coqchk
    coqchk_info = {}
    if tier == "thorough" and rc == 0 and not replay:
        with Lock("coq"):
            t1 = time.time()
            try:
                rck, cout = sh(["coqchk", "-silent", "-o", "-Q", "theories", "UV", "UV.Props." + pid], cwd=COQ, timeout=P.get("coqchk_timeout", 2400))
            except subprocess.TimeoutExpired:
                rck, cout = -1, "coqchk timed out"
        m = re.search(r"\* Axioms:(.*?)\n\s*\n\* Constants", cout, flags=re.S)
        ck_ax = [a.strip() for a in (m.group(1).split("\n") if m else []) if a.strip() and a.strip() != "<none>"]
        coqchk_info = {"cmd": "coqchk -silent -o -Q theories UV UV.Props." + pid, "exit": rck, "axioms": ck_ax, "wall_s": round(time.time() - t1, 1)}
        if rck == -1:
            coqchk_info["note"] = "timed out; not counted as a failure"
        elif rck != 0:
            problems.append(("proof", "coqchk rejected the compiled closure: " + cout[-800:]))
        else:
            bad = [a for a in ck_ax if a.split()[0].split(".")[-1] not in set(x.split(".")[-1] for x in allowed) and a.split()[0] not in allowed]
            if bad: problems.append(("proof", "coqchk reports axioms outside the allowed list: " + "; ".join(bad[:6])))

    # 2. correspondence + oracle on the implementation
    stats = {}
    mism = []
    if P.get("runner"):
        rcg, glog, runner = build_runner(pid, pkg=P.get("pkg", "./cmd/runner"))
        casedir = os.path.join(BUILD, pid + (".dev-" + os.path.basename(REPO.rstrip("/")) if DEV else ""))
        if rcg != 0:
            problems.append(("harness-build", glog[-1500:]))
        else:
            n = P["n"][tier]
            shutil.rmtree(casedir, ignore_errors=True)
            extra = ["-replay", replay] if replay else []
            rcr, rlog = sh([runner, P["runner"], "-seed", str(seed), "-n", str(n), "-tier", tier, "-out", casedir] + extra,
                           cwd=VERIF, env=GOENV, timeout=P.get("runner_timeout", 3000))
            if rcr != 0 or not os.path.exists(os.path.join(casedir, "stats.json")):
                problems.append(("runner", "runner exited %s: %s" % (rcr, rlog[-1500:])))
            else:
                stats = json.load(open(os.path.join(casedir, "stats.json")))
                if rc == 0 or all(os.path.exists(os.path.join(COQ, c[:-2] + ".vo")) for c in corrfiles):
                    res = run_cases(casedir)
                    terms = open(os.path.join(casedir, "cases.txt")).read().split("\n")
                    oidx = stats.get("oracle_idx") or {}
                    for st, f, val in res:
                        if st == "error":
                            problems.append(("correspondence", "could not evaluate %s: %s" % (os.path.basename(f), val[-800:])))
                        else:
                            for i in val:
                                if str(i) in oidx:
                                    # the case is the property's oracle (a proven-sound Coq predicate) applied to what the code produced
                                    o = oidx[str(i)]
                                    stats.setdefault("failures", [])
                                    if stats["failures"] is None: stats["failures"] = []
                                    stats["failures"].append({"key": o.get("key"), "what": o.get("what") or "property oracle (Coq predicate) rejects the implementation's output",
                                                              "input": o.get("input"), "got": terms[i][:3000], "want": "oracle accepts"})
                                else:
                                    mism.append({"index": i, "case": terms[i][:4000]})
                if mism:
                    problems.append(("correspondence", "%d of %d cases: model and implementation disagree; first: %s" % (len(mism), stats.get("evaluations", 0), mism[0]["case"][:600])))
        try: os.remove(runner)
        except Exception: pass

    # 2b. schedules under the race detector
    race_info = {}
    race_fails = []
    if P.get("race_suite"):
        race_fails, race_info = run_race_suite(pid, P, tier, seed)

    # 3. oracle failures vs known findings
    kf, fixed = load_known()
    for fl in (stats.get("failures") or []) + race_fails:
        k = [x for x in kf if x[0] == pid and key_matches(x[1], fl["key"])]
        if k: known_seen.append((k[0][1], k[0][2]))
        else: violations.append(fl)
    # model-level instance findings (Inst tables) are reported by the runner too, as failures.

    # 4. search for a concrete failing input when something no longer checks
    searched = 0
    if problems and not violations and P.get("runner") and stats and not replay:
        rcg, glog, runner = build_runner(pid + ".s", pkg=P.get("pkg", "./cmd/runner"))
        if rcg == 0:
            for k in range(P.get("search_rounds", 3)):
                sdir = os.path.join(BUILD, pid + ".search" + (".dev-" + os.path.basename(REPO.rstrip("/")) if DEV else ""))
                shutil.rmtree(sdir, ignore_errors=True)
                sh([runner, P["runner"], "-seed", str(seed * 7919 + 104729 * (k + 1)), "-n", str(P["n"]["thorough"]), "-tier", "search", "-out", sdir],
                   cwd=VERIF, env=GOENV, timeout=P.get("runner_timeout", 3000))
                searched += 1
                try:
                    st2 = json.load(open(os.path.join(sdir, "stats.json")))
                except Exception: continue
                for fl in (st2.get("failures") or []):
                    if not any(x[0] == pid and key_matches(x[1], fl["key"]) for x in kf):
                        violations.append(fl)
                shutil.rmtree(sdir, ignore_errors=True)
                if violations: break
            try: os.remove(runner)
            except Exception: pass

    # 5. verdict, replay, evidence
    seen = set()
    for k, txt in known_seen:
        if k in seen: continue
        seen.add(k)
        print("KNOWN-FINDING: property=%s %s [key=%s]" % (pid, txt, k))
    rc_final = 0
    replay_path = None
    if violations or problems:
        rc_final = 1
        os.makedirs(os.path.join(OUTROOT, "replays"), exist_ok=True)
        replay_path = os.path.join(OUTROOT, "replays", "%s-%s-%d.json" % (pid, tier, seed))
        write_json(replay_path, {
            "property": pid, "seed": seed, "tier": tier,
            "failing_inputs": violations[:20],
            "no_longer_checks": [{"kind": k, "detail": t} for k, t in problems],
            "mismatching_cases": mism[:10],
            "replay_cmd": "cd /verif && VERIF_SEED=%d bin/check %s --tier %s" % (seed, pid, tier),
        })
        if violations:
            print("VIOLATION property=%s replay=%s" % (pid, replay_path))
            v = violations[0]
            print("  failing input: key=%s what=%s input=%s got=%s want=%s" % (v.get("key"), v.get("what"), json.dumps(v.get("input"))[:300], json.dumps(v.get("got"))[:300], json.dumps(v.get("want"))[:200]))
        else:
            print("VIOLATION property=%s replay=%s no-failing-input-found" % (pid, replay_path))
        for k, t in problems:
            print("  no longer checks [%s]: %s" % (k, t[:400].replace("\n", " ")))
    cov = {
        "obligations": max(1, len(names)), "discharged": discharged,
        "checker_cmd": "make -C coq %s (coqc 8.16.1, full .vo build; Props file recompiled on every run)" % " ".join(targets),
        "trusted_base": P.get("trusted_base", []) + ["Coq 8.16.1 kernel + vm_compute", "Go 1.24 toolchain", "lib/vcheck.py, harness/ (correspondence runner and property oracle)"],
        "theorems": names,
        "print_assumptions": sorted(set(a.split("\n")[0] if a.startswith("Closed") else a for a in assum)),
        "evaluations": stats.get("evaluations", 0), "distinct_nontrivial": stats.get("distinct_nontrivial", 0),
        "rule": P.get("rule", ""), "samples": stats.get("samples") or [{"theorem": n} for n in names[:3]],
        "distribution": stats.get("distribution", {}), "correspondence_mismatches": len(mism),
        "oracle_failures": len(stats.get("failures") or []), "known_findings_seen": sorted(seen),
        "search_rounds": searched, "gen_changed": gen_changed, "extra": stats.get("extra", {}),
        "proof_build_s": round(bt, 1), "race": race_info, "coqchk": coqchk_info,
    }
    evid["coverage"] = cov
    evid["assumptions"] = P.get("assumes", [])
    evid["violations"] = len(violations) + (1 if problems and not violations else 0)
    evid["wall_s"] = round(time.time() - t0, 1)
    write_json(os.path.join(OUTROOT, "evidence", pid + ".json"), evid)
    print("%s %s: obligations %d/%d, cases %d (distinct non-trivial %d), mismatches %d, oracle failures %d (known %d), %.0fs -> %s" % (
        pid, tier, discharged, len(names), cov["evaluations"], cov["distinct_nontrivial"], len(mism), cov["oracle_failures"], len(known_seen), evid["wall_s"], "OK" if rc_final == 0 else "FAIL"))
    return rc_final

"""Translator driver for coq/theories/Gen/Suites.v (cipher suite tables of /repo as Coq data).
The Go side is `harness/cmd/c27 gensuites` (needs hooks/verif_c27.go installed in the repo).
regenerate_suites() -> (ok, changed, log). To be wired into lib/gen.py's regenerate() by the integrator."""
import os, shutil, subprocess

VERIF = os.path.dirname(os.path.dirname(os.path.abspath(__file__)))
HARNESS = os.path.join(VERIF, "harness")
BUILD = os.path.join(VERIF, "_build")
TARGET = os.path.join(VERIF, "coq", "theories", "Gen", "Suites.v")

def regenerate_suites():
    repo = os.environ.get("VERIF_REPO") or "/repo"
    env = dict(os.environ, GOFLAGS="-mod=mod", GOPROXY="off")
    env.pop("GOSUMDB", None); env.pop("GOTOOLCHAIN", None)
    os.makedirs(BUILD, exist_ok=True)
    tag = os.path.basename(repo.rstrip("/"))
    exe = os.path.join(BUILD, "gensuites.%s.%d" % (tag, os.getpid()))
    cmd = ["go", "build", "-tags", "verif"]
    if repo != "/repo":
        mod = open(os.path.join(HARNESS, "go.mod")).read().replace("=> /repo", "=> " + repo)
        alt = os.path.join(BUILD, "go.gensuites-%s.mod" % tag)
        with open(alt, "w") as f: f.write(mod)
        shutil.copy(os.path.join(repo, "go.sum"), alt[:-4] + ".sum")
        cmd += ["-modfile", alt]
    # serialise with the driver's other go builds of the harness (concurrent links of one package race in the build cache)
    import vcheck
    with vcheck.Lock("go"):
        p = subprocess.run(cmd + ["-o", exe, "./cmd/c27"], cwd=HARNESS, env=env, stdout=subprocess.PIPE, stderr=subprocess.STDOUT, text=True, timeout=1800)
    if p.returncode != 0 and "pseudo-cache" in p.stdout:
        with vcheck.Lock("go"):
            p = subprocess.run(cmd + ["-o", exe, "./cmd/c27"], cwd=HARNESS, env=env, stdout=subprocess.PIPE, stderr=subprocess.STDOUT, text=True, timeout=1800)
    if p.returncode != 0:
        return False, [], "gen_suites: go build failed:\n" + p.stdout[-1500:]
    q = subprocess.run([exe, "gensuites"], cwd=VERIF, env=env, stdout=subprocess.PIPE, stderr=subprocess.PIPE, text=True, timeout=300)
    try: os.remove(exe)
    except OSError: pass
    if q.returncode != 0 or "Definition suites_weak" not in q.stdout:
        return False, [], "gen_suites: translator failed:\n" + (q.stderr or q.stdout)[-1500:]
    old = open(TARGET).read() if os.path.exists(TARGET) else None
    if old == q.stdout:
        return True, [], "gen_suites: Gen/Suites.v up to date"
    os.makedirs(os.path.dirname(TARGET), exist_ok=True)
    tmp = TARGET + ".tmp"
    with open(tmp, "w") as f: f.write(q.stdout)
    os.replace(tmp, TARGET)
    return True, ["coq/theories/Gen/Suites.v"], "gen_suites: Gen/Suites.v regenerated"

if __name__ == "__main__":
    ok, changed, log = regenerate_suites()
    print(log, changed)
    raise SystemExit(0 if ok else 1)

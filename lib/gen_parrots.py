"""Translator driver for coq/theories/Gen/Parrots.v (the predefined parrots of the tree under check as Coq data).
Go side: `harness/cmd/c03 gen -repo REPO -out FILE` (go/parser over REPO/u_common.go for every Hello* ClientHelloID,
UTLSIdToSpec 16 times per id on the package compiled from the same tree, no hook needed).

    gen_parrots() -> (ok, [changed paths relative to /verif], log)      # the lib/gen.py generator interface

Registration: lib/gen.py's GENERATORS is a plain list and regenerate(only=[names]) selects generators by function name
minus the "gen_" prefix; lib/reg/C03.py has gen=["parrots"] and calls register(), which appends gen_parrots to GENERATORS
once, and only when the property being checked needs the table (see NEEDS), so that a check with gen=True (C32) does not
pay for it. The integrator may instead add `from gen_parrots import gen_parrots` + `GENERATORS.append(gen_parrots)` to
lib/gen.py and delete the register() call from lib/reg/C03.py."""
import os, sys
import vcheck

NEEDS = {"C03"}          # properties whose proofs Require Gen/Parrots.v


def gen_parrots():
    import gen
    rc, log, tool = gen.build_tool("./cmd/c03", "gen.c03")
    if rc != 0:
        return False, [], "building the parrot translator failed:\n" + log
    dst = os.path.join(gen.GEN_DIR, "Parrots.v")
    tmp = os.path.join(vcheck.BUILD, "Parrots.v.%d.tmp" % os.getpid())
    try:
        rc, out = vcheck.sh([tool, "gen", "-repo", vcheck.REPO, "-out", tmp], cwd=vcheck.VERIF, env=vcheck.GOENV, timeout=600)
        if rc != 0 or not os.path.exists(tmp):
            return False, [], "parrot translator failed: " + out
        with vcheck.Lock("coq"):
            changed = gen.replace_if_changed(tmp, dst)
        return True, ([os.path.relpath(dst, vcheck.VERIF)] if changed else []), out
    finally:
        for f in (tmp, tool):
            try: os.remove(f)
            except OSError: pass


def register():
    import gen
    wanted = [a for a in sys.argv[1:] if a in NEEDS]
    if wanted and not any(getattr(g, "__name__", "") == "gen_parrots" for g in gen.GENERATORS):
        gen.GENERATORS.append(gen_parrots)

"""Regeneration of the Coq data files under coq/theories/Gen/ from the Go sources of the tree being
checked (vcheck.REPO). Called by vcheck.run_check before the proof build of every property whose
registry entry has gen=True:

    ok, changed_files, log = regenerate()

Each generator is a function () -> (ok, [changed paths relative to /verif], log text). To add tables for
another property, write such a function and append it to GENERATORS. A generated file is only rewritten
when its content changes (so `make` does not rebuild needlessly); the committed snapshot keeps a fresh
checkout buildable."""
import os, shutil
import vcheck

GEN_DIR = os.path.join(vcheck.COQ, "theories", "Gen")


def build_tool(pkg, tag):
    """go build ./cmd/<pkg> of the harness against vcheck.REPO (same -modfile logic as vcheck.build_runner)."""
    return vcheck.build_runner(tag, pkg=pkg)


def replace_if_changed(tmp, dst):
    new = open(tmp).read()
    old = open(dst).read() if os.path.exists(dst) else None
    if new == old:
        os.remove(tmp)
        return False
    os.makedirs(os.path.dirname(dst), exist_ok=True)
    shutil.move(tmp, dst)
    return True


def gen_dicttls():
    """coq/theories/Gen/Dict.v from REPO/dicttls/*.go via `c32 gen` (go/parser + go/types)."""
    rc, log, tool = build_tool("./cmd/c32", "gen.c32")
    if rc != 0:
        return False, [], "building the dicttls translator failed:\n" + log
    dst = os.path.join(GEN_DIR, "Dict.v")
    tmp = os.path.join(vcheck.BUILD, "Dict.v.%d.tmp" % os.getpid())
    try:
        rc, out = vcheck.sh([tool, "gen", "-repo", vcheck.REPO, "-out", tmp], cwd=vcheck.VERIF, env=vcheck.GOENV, timeout=600)
        if rc != 0 or not os.path.exists(tmp):
            return False, [], "dicttls translator failed: " + out
        with vcheck.Lock("coq"):
            changed = replace_if_changed(tmp, dst)
        return True, ([os.path.relpath(dst, vcheck.VERIF)] if changed else []), out
    finally:
        for f in (tmp, tool):
            try: os.remove(f)
            except OSError: pass


def gen_suites():
    import gen_suites as _gs
    return _gs.regenerate_suites()


def gen_parrots():
    import gen_parrots as _gp
    return _gp.gen_parrots()


GENERATORS = [gen_dicttls, gen_suites, gen_parrots]


def regenerate(only=None):
    """only: None/True = every generator; a list of names ('dicttls', 'suites', ...) = just those."""
    ok, changed, logs = True, [], []
    for g in GENERATORS:
        if isinstance(only, (list, tuple)) and g.__name__[4:] not in only: continue
        try:
            o, ch, log = g()
        except Exception as e:  # a crashing generator must fail the check, not the driver
            o, ch, log = False, [], "%s raised %r" % (g.__name__, e)
        ok = ok and o
        changed += ch
        logs.append("[%s] %s" % (g.__name__, log.strip()))
    return ok, changed, "\n".join(logs)
